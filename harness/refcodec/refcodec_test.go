package refcodec

import "testing"

func TestSelf(t *testing.T) {
	if err := SelfTest(); err != nil {
		t.Fatal(err)
	}
}
