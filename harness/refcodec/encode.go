package refcodec

import "encoding/binary"

// Form selects among the encodings MQTT 5 permits for packets with optional tails.
type Form int

const (
	FormAuto     Form = iota // shortest permitted form
	FormReason               // reason code present, property length omitted (only legal without properties)
	FormFull                 // reason code and property length present
	FormShortest = FormAuto
)

func putStr(b []byte, s string) []byte {
	b = binary.BigEndian.AppendUint16(b, uint16(len(s)))
	return append(b, s...)
}
func putBin(b []byte, s []byte) []byte {
	b = binary.BigEndian.AppendUint16(b, uint16(len(s)))
	return append(b, s...)
}

// EncodeProps encodes a property list in the given order (with its length prefix).
func EncodeProps(ps Props) []byte {
	var body []byte
	for _, p := range ps {
		body = append(body, p.ID)
		switch propKinds[p.ID] {
		case kByte:
			body = append(body, byte(p.Num))
		case kU16:
			body = binary.BigEndian.AppendUint16(body, uint16(p.Num))
		case kU32:
			body = binary.BigEndian.AppendUint32(body, p.Num)
		case kVBI:
			body = AppendVBI(body, int(p.Num))
		case kStr:
			body = putStr(body, p.Str)
		case kBin:
			body = putBin(body, p.Bin)
		case kPair:
			body = putStr(body, p.Str)
			body = putStr(body, p.Val)
		}
	}
	out := AppendVBI(nil, len(body))
	return append(out, body...)
}

// Encode serialises p for protocol version p.Version (CONNECT: p.ProtoLevel).
func Encode(p *Packet, form Form) []byte {
	v5 := p.Version == 5
	var body []byte
	hdr := p.Type << 4
	switch p.Type {
	case CONNECT:
		v5 = p.ProtoLevel == 5
		body = putStr(body, p.ProtoName)
		body = append(body, p.ProtoLevel, p.ConnectFlags)
		body = binary.BigEndian.AppendUint16(body, p.KeepAlive)
		if v5 {
			body = append(body, EncodeProps(p.Props)...)
		}
		body = putStr(body, p.ClientID)
		if p.WillFlag() {
			if v5 {
				body = append(body, EncodeProps(p.WillProps)...)
			}
			body = putStr(body, p.WillTopic)
			body = putBin(body, p.WillPayload)
		}
		if p.UsernameFlag() {
			body = putBin(body, p.Username)
		}
		if p.PasswordFlag() {
			body = putBin(body, p.Password)
		}
	case CONNACK:
		f := p.AckFlags
		if p.SessionPresent {
			f |= 1
		}
		body = append(body, f, p.Reason)
		if v5 {
			body = append(body, EncodeProps(p.Props)...)
		}
	case PUBLISH:
		hdr |= p.QoS << 1
		if p.Dup {
			hdr |= 8
		}
		if p.Retain {
			hdr |= 1
		}
		body = putStr(body, p.Topic)
		if p.QoS > 0 {
			body = binary.BigEndian.AppendUint16(body, p.PacketID)
		}
		if v5 {
			body = append(body, EncodeProps(p.Props)...)
		}
		body = append(body, p.Payload...)
	case PUBACK, PUBREC, PUBREL, PUBCOMP:
		if p.Type == PUBREL {
			hdr |= 2
		}
		body = binary.BigEndian.AppendUint16(body, p.PacketID)
		if v5 {
			switch {
			case len(p.Props) > 0 || form == FormFull:
				body = append(body, p.Reason)
				body = append(body, EncodeProps(p.Props)...)
			case p.Reason != 0 || form == FormReason:
				body = append(body, p.Reason)
			}
		}
	case SUBSCRIBE:
		hdr |= 2
		body = binary.BigEndian.AppendUint16(body, p.PacketID)
		if v5 {
			body = append(body, EncodeProps(p.Props)...)
		}
		for _, f := range p.Filters {
			body = putStr(body, f.Filter)
			body = append(body, f.Options)
		}
	case UNSUBSCRIBE:
		hdr |= 2
		body = binary.BigEndian.AppendUint16(body, p.PacketID)
		if v5 {
			body = append(body, EncodeProps(p.Props)...)
		}
		for _, f := range p.Filters {
			body = putStr(body, f.Filter)
		}
	case SUBACK:
		body = binary.BigEndian.AppendUint16(body, p.PacketID)
		if v5 {
			body = append(body, EncodeProps(p.Props)...)
		}
		body = append(body, p.ReasonCodes...)
	case UNSUBACK:
		body = binary.BigEndian.AppendUint16(body, p.PacketID)
		if v5 {
			body = append(body, EncodeProps(p.Props)...)
			body = append(body, p.ReasonCodes...)
		}
	case PINGREQ, PINGRESP:
	case DISCONNECT, AUTH:
		if v5 {
			switch {
			case len(p.Props) > 0 || form == FormFull:
				body = append(body, p.Reason)
				body = append(body, EncodeProps(p.Props)...)
			case p.Reason != 0 || form == FormReason:
				body = append(body, p.Reason)
			}
		}
	}
	out := []byte{hdr}
	out = AppendVBI(out, len(body))
	return append(out, body...)
}

// Frame prefixes a body with a fixed header.
func Frame(hdr byte, body []byte) []byte {
	out := []byte{hdr}
	out = AppendVBI(out, len(body))
	return append(out, body...)
}
