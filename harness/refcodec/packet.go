package refcodec

import (
	"encoding/binary"
	"fmt"
	"unicode/utf8"
)

// Packet types (MQTT 2.1.2).
const (
	CONNECT     = 1
	CONNACK     = 2
	PUBLISH     = 3
	PUBACK      = 4
	PUBREC      = 5
	PUBREL      = 6
	PUBCOMP     = 7
	SUBSCRIBE   = 8
	SUBACK      = 9
	UNSUBSCRIBE = 10
	UNSUBACK    = 11
	PINGREQ     = 12
	PINGRESP    = 13
	DISCONNECT  = 14
	AUTH        = 15
)

var TypeNames = map[byte]string{1: "CONNECT", 2: "CONNACK", 3: "PUBLISH", 4: "PUBACK", 5: "PUBREC", 6: "PUBREL", 7: "PUBCOMP",
	8: "SUBSCRIBE", 9: "SUBACK", 10: "UNSUBSCRIBE", 11: "UNSUBACK", 12: "PINGREQ", 13: "PINGRESP", 14: "DISCONNECT", 15: "AUTH"}

// Property identifiers (MQTT 5 2.2.2.2).
const (
	PPayloadFormat   = 0x01
	PMessageExpiry   = 0x02
	PContentType     = 0x03
	PResponseTopic   = 0x08
	PCorrelationData = 0x09
	PSubscriptionID  = 0x0B
	PSessionExpiry   = 0x11
	PAssignedClient  = 0x12
	PServerKeepAlive = 0x13
	PAuthMethod      = 0x15
	PAuthData        = 0x16
	PReqProblemInfo  = 0x17
	PWillDelay       = 0x18
	PReqResponseInfo = 0x19
	PResponseInfo    = 0x1A
	PServerReference = 0x1C
	PReasonString    = 0x1F
	PReceiveMaximum  = 0x21
	PTopicAliasMax   = 0x22
	PTopicAlias      = 0x23
	PMaximumQoS      = 0x24
	PRetainAvailable = 0x25
	PUserProperty    = 0x26
	PMaxPacketSize   = 0x27
	PWildcardSubAv   = 0x28
	PSubIDAvailable  = 0x29
	PSharedSubAv     = 0x2A
)

type propKind int

const (
	kByte propKind = iota
	kU16
	kU32
	kVBI
	kStr
	kBin
	kPair
)

var propKinds = map[byte]propKind{
	PPayloadFormat: kByte, PMessageExpiry: kU32, PContentType: kStr, PResponseTopic: kStr, PCorrelationData: kBin,
	PSubscriptionID: kVBI, PSessionExpiry: kU32, PAssignedClient: kStr, PServerKeepAlive: kU16, PAuthMethod: kStr,
	PAuthData: kBin, PReqProblemInfo: kByte, PWillDelay: kU32, PReqResponseInfo: kByte, PResponseInfo: kStr,
	PServerReference: kStr, PReasonString: kStr, PReceiveMaximum: kU16, PTopicAliasMax: kU16, PTopicAlias: kU16,
	PMaximumQoS: kByte, PRetainAvailable: kByte, PUserProperty: kPair, PMaxPacketSize: kU32, PWildcardSubAv: kByte,
	PSubIDAvailable: kByte, PSharedSubAv: kByte,
}

const willPseudoType = 99

// allowed[prop] = packet types in which it may appear (MQTT 5 table 2-4).
var allowed = map[byte][]byte{
	PPayloadFormat: {PUBLISH, willPseudoType}, PMessageExpiry: {PUBLISH, willPseudoType}, PContentType: {PUBLISH, willPseudoType},
	PResponseTopic: {PUBLISH, willPseudoType}, PCorrelationData: {PUBLISH, willPseudoType},
	PSubscriptionID: {PUBLISH, SUBSCRIBE}, PSessionExpiry: {CONNECT, CONNACK, DISCONNECT}, PAssignedClient: {CONNACK},
	PServerKeepAlive: {CONNACK}, PAuthMethod: {CONNECT, CONNACK, AUTH}, PAuthData: {CONNECT, CONNACK, AUTH},
	PReqProblemInfo: {CONNECT}, PWillDelay: {willPseudoType}, PReqResponseInfo: {CONNECT}, PResponseInfo: {CONNACK},
	PServerReference: {CONNACK, DISCONNECT},
	PReasonString:    {CONNACK, PUBACK, PUBREC, PUBREL, PUBCOMP, SUBACK, UNSUBACK, DISCONNECT, AUTH},
	PReceiveMaximum:  {CONNECT, CONNACK}, PTopicAliasMax: {CONNECT, CONNACK}, PTopicAlias: {PUBLISH},
	PMaximumQoS: {CONNACK}, PRetainAvailable: {CONNACK},
	PUserProperty:  {CONNECT, CONNACK, PUBLISH, willPseudoType, PUBACK, PUBREC, PUBREL, PUBCOMP, SUBSCRIBE, SUBACK, UNSUBSCRIBE, UNSUBACK, DISCONNECT, AUTH},
	PMaxPacketSize: {CONNECT, CONNACK}, PWildcardSubAv: {CONNACK}, PSubIDAvailable: {CONNACK}, PSharedSubAv: {CONNACK},
}

func PropAllowed(id, ptype byte) bool {
	for _, t := range allowed[id] {
		if t == ptype {
			return true
		}
	}
	return false
}

// Prop is one property occurrence.
type Prop struct {
	ID  byte   `json:"id"`
	Num uint32 `json:"num,omitempty"` // byte / u16 / u32 / vbi value
	Str string `json:"str,omitempty"` // string value or user-property key
	Val string `json:"val,omitempty"` // user-property value
	Bin []byte `json:"bin,omitempty"`
}

type Props []Prop

func (ps Props) Get(id byte) (Prop, bool) {
	for _, p := range ps {
		if p.ID == id {
			return p, true
		}
	}
	return Prop{}, false
}
func (ps Props) Has(id byte) bool { _, ok := ps.Get(id); return ok }
func (ps Props) All(id byte) []Prop {
	var out []Prop
	for _, p := range ps {
		if p.ID == id {
			out = append(out, p)
		}
	}
	return out
}
func (ps Props) Num(id byte, def uint32) uint32 {
	if p, ok := ps.Get(id); ok {
		return p.Num
	}
	return def
}
func (ps Props) Str(id byte) string { p, _ := ps.Get(id); return p.Str }

type SubFilter struct {
	Filter  string `json:"filter"`
	Options byte   `json:"options"` // v5: qos | nl<<2 | rap<<3 | rh<<4 ; v3: requested qos
}

func (f SubFilter) QoS() byte     { return f.Options & 3 }
func (f SubFilter) NoLocal() bool { return f.Options&4 != 0 }
func (f SubFilter) RAP() bool     { return f.Options&8 != 0 }
func (f SubFilter) RH() byte      { return f.Options >> 4 & 3 }

// Packet is a decoded (or to-be-encoded) MQTT control packet.
type Packet struct {
	Type    byte `json:"type"`
	Flags   byte `json:"flags"` // low nibble of byte 1 as on the wire
	Version byte `json:"version"`

	// PUBLISH
	Dup     bool   `json:"dup,omitempty"`
	QoS     byte   `json:"qos,omitempty"`
	Retain  bool   `json:"retain,omitempty"`
	Topic   string `json:"topic,omitempty"`
	Payload []byte `json:"payload,omitempty"`

	PacketID uint16 `json:"pid,omitempty"`

	// CONNECT
	ProtoName    string `json:"proto_name,omitempty"`
	ProtoLevel   byte   `json:"proto_level,omitempty"`
	ConnectFlags byte   `json:"connect_flags,omitempty"`
	KeepAlive    uint16 `json:"keepalive,omitempty"`
	ClientID     string `json:"client_id,omitempty"`
	WillProps    Props  `json:"will_props,omitempty"`
	WillTopic    string `json:"will_topic,omitempty"`
	WillPayload  []byte `json:"will_payload,omitempty"`
	Username     []byte `json:"username,omitempty"`
	Password     []byte `json:"password,omitempty"`

	// CONNACK
	SessionPresent bool `json:"session_present,omitempty"`
	AckFlags       byte `json:"ack_flags,omitempty"`

	// reason code of CONNACK / PUBACK.. / DISCONNECT / AUTH; HasReason says whether the byte was on the wire
	Reason    byte `json:"reason"`
	HasReason bool `json:"has_reason,omitempty"`
	HasProps  bool `json:"has_props,omitempty"` // property length present on the wire

	Filters     []SubFilter `json:"filters,omitempty"`
	ReasonCodes []byte      `json:"reason_codes,omitempty"`
	Props       Props       `json:"props,omitempty"`

	WireLen int `json:"wire_len,omitempty"` // total bytes of the packet as decoded
}

func (p *Packet) CleanStart() bool   { return p.ConnectFlags&0x02 != 0 }
func (p *Packet) WillFlag() bool     { return p.ConnectFlags&0x04 != 0 }
func (p *Packet) WillQoS() byte      { return p.ConnectFlags >> 3 & 3 }
func (p *Packet) WillRetain() bool   { return p.ConnectFlags&0x20 != 0 }
func (p *Packet) PasswordFlag() bool { return p.ConnectFlags&0x40 != 0 }
func (p *Packet) UsernameFlag() bool { return p.ConnectFlags&0x80 != 0 }

func (p *Packet) String() string {
	n := TypeNames[p.Type]
	switch p.Type {
	case PUBLISH:
		return fmt.Sprintf("PUBLISH{topic=%q qos=%d dup=%v retain=%v id=%d payload=%q props=%v}", p.Topic, p.QoS, p.Dup, p.Retain, p.PacketID, trunc(p.Payload), p.Props)
	case CONNACK:
		return fmt.Sprintf("CONNACK{sp=%v rc=0x%02x props=%v}", p.SessionPresent, p.Reason, p.Props)
	case SUBACK, UNSUBACK:
		return fmt.Sprintf("%s{id=%d codes=% x}", n, p.PacketID, p.ReasonCodes)
	case PUBACK, PUBREC, PUBREL, PUBCOMP:
		return fmt.Sprintf("%s{id=%d rc=0x%02x}", n, p.PacketID, p.Reason)
	case DISCONNECT, AUTH:
		return fmt.Sprintf("%s{rc=0x%02x props=%v}", n, p.Reason, p.Props)
	}
	return n
}

func trunc(b []byte) string {
	if len(b) > 24 {
		return string(b[:24]) + "…"
	}
	return string(b)
}

// ValidUTF8String implements MQTT 1.5.4: well-formed UTF-8, no U+0000 (surrogates are
// rejected by utf8.Valid already).
func ValidUTF8String(b []byte) bool {
	if !utf8.Valid(b) {
		return false
	}
	for _, c := range b {
		if c == 0 {
			return false
		}
	}
	return true
}

// ---------------------------------------------------------------- reader

type reader struct {
	b   []byte
	off int
}

func (r *reader) left() int { return len(r.b) - r.off }
func (r *reader) u8() (byte, error) {
	if r.left() < 1 {
		return 0, ErrShort
	}
	v := r.b[r.off]
	r.off++
	return v, nil
}
func (r *reader) u16() (uint16, error) {
	if r.left() < 2 {
		return 0, ErrShort
	}
	v := binary.BigEndian.Uint16(r.b[r.off:])
	r.off += 2
	return v, nil
}
func (r *reader) u32() (uint32, error) {
	if r.left() < 4 {
		return 0, ErrShort
	}
	v := binary.BigEndian.Uint32(r.b[r.off:])
	r.off += 4
	return v, nil
}
func (r *reader) bin() ([]byte, error) {
	n, err := r.u16()
	if err != nil {
		return nil, err
	}
	if r.left() < int(n) {
		return nil, ErrShort
	}
	v := append([]byte{}, r.b[r.off:r.off+int(n)]...)
	r.off += int(n)
	return v, nil
}
func (r *reader) str() (string, error) {
	b, err := r.bin()
	if err != nil {
		return "", err
	}
	if !ValidUTF8String(b) {
		return "", fmt.Errorf("%w: invalid UTF-8 string", ErrMalformed)
	}
	return string(b), nil
}
func (r *reader) vbi() (int, error) {
	v, n, err := DecodeVBI(r.b[r.off:])
	if err != nil {
		return 0, err
	}
	r.off += n
	return v, nil
}

// decodeProps reads a property block for the given (pseudo) packet type.
func decodeProps(r *reader, ptype byte, strict bool) (Props, error) {
	n, err := r.vbi()
	if err != nil {
		return nil, fmt.Errorf("property length: %w", err)
	}
	if r.left() < n {
		return nil, fmt.Errorf("property block: %w", ErrShort)
	}
	sub := &reader{b: r.b[r.off : r.off+n]}
	r.off += n
	var ps Props
	seen := map[byte]bool{}
	for sub.left() > 0 {
		id, _ := sub.u8()
		kind, ok := propKinds[id]
		if !ok {
			return nil, fmt.Errorf("%w: unknown property 0x%02x", ErrMalformed, id)
		}
		if strict && !PropAllowed(id, ptype) {
			return nil, fmt.Errorf("%w: property 0x%02x not allowed in packet type %d", ErrMalformed, id, ptype)
		}
		if strict && seen[id] && id != PUserProperty && !(id == PSubscriptionID && ptype == PUBLISH) {
			return nil, fmt.Errorf("%w: duplicate property 0x%02x", ErrMalformed, id)
		}
		seen[id] = true
		p := Prop{ID: id}
		var e error
		switch kind {
		case kByte:
			var v byte
			v, e = sub.u8()
			p.Num = uint32(v)
		case kU16:
			var v uint16
			v, e = sub.u16()
			p.Num = uint32(v)
		case kU32:
			p.Num, e = sub.u32()
		case kVBI:
			var v int
			v, e = sub.vbi()
			p.Num = uint32(v)
		case kStr:
			p.Str, e = sub.str()
		case kBin:
			p.Bin, e = sub.bin()
		case kPair:
			p.Str, e = sub.str()
			if e == nil {
				p.Val, e = sub.str()
			}
		}
		if e != nil {
			if isShort(e) {
				// the field runs past the end of the property block (not necessarily past the buffer)
				return nil, fmt.Errorf("%w: property 0x%02x exceeds the property block", ErrMalformed, id)
			}
			return nil, fmt.Errorf("property 0x%02x: %w", id, e)
		}
		if strict {
			if e := checkPropValue(p, ptype); e != nil {
				return nil, e
			}
		}
		ps = append(ps, p)
	}
	return ps, nil
}

func checkPropValue(p Prop, ptype byte) error {
	bad := func(s string) error { return fmt.Errorf("%w: property 0x%02x %s", ErrMalformed, p.ID, s) }
	switch p.ID {
	case PPayloadFormat, PReqProblemInfo, PReqResponseInfo, PRetainAvailable, PWildcardSubAv, PSubIDAvailable, PSharedSubAv, PMaximumQoS:
		if p.Num > 1 {
			return bad("must be 0 or 1")
		}
	case PSubscriptionID:
		if p.Num == 0 {
			return bad("subscription identifier 0")
		}
	case PReceiveMaximum, PMaxPacketSize:
		if p.Num == 0 {
			return bad("must not be 0")
		}
	case PTopicAlias:
		if p.Num == 0 {
			return bad("topic alias 0")
		}
	}
	return nil
}

// DecodePropsOnly decodes a bare property block (length prefix + properties) as the broker's
// Properties.Decode is given it; ptype 99 selects will properties.
func DecodePropsOnly(body []byte, ptype byte, strict bool) (Props, int, error) {
	r := &reader{b: body}
	ps, err := decodeProps(r, ptype, strict)
	return ps, r.off, err
}
