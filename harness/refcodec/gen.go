package refcodec

import (
	"strings"

	"verif/harness/vk"
)

// Generators of well-formed packet values with boundary-heavy field domains.

var strPool = []string{"a", "b", "topic", "a/b", "é", "日本語", "x y", "ü/ö", " ", "k", "\U0001F600"}

func GenStr(r *vk.Rand, allowEmpty bool) string {
	switch r.Intn(20) {
	case 0:
		if allowEmpty {
			return ""
		}
	case 1:
		return strings.Repeat("z", 65535)
	case 2:
		return strings.Repeat("日", 21845) // 65535 bytes
	case 3:
		return strings.Repeat("q", r.Range(120, 300))
	}
	n := r.Range(1, 3)
	var sb strings.Builder
	for i := 0; i < n; i++ {
		sb.WriteString(vk.Pick(r, strPool))
	}
	return sb.String()
}

func GenSmallStr(r *vk.Rand) string {
	n := r.Range(1, 2)
	var sb strings.Builder
	for i := 0; i < n; i++ {
		sb.WriteString(vk.Pick(r, strPool))
	}
	return sb.String()
}

func GenBin(r *vk.Rand, allowEmpty bool) []byte {
	switch r.Intn(16) {
	case 0:
		if allowEmpty {
			return []byte{}
		}
	case 1:
		return r.Bytes(65535)
	case 2:
		return r.Bytes(r.Range(128, 400))
	}
	return r.Bytes(r.Range(1, 12))
}

func genTopic(r *vk.Rand) string {
	s := GenStr(r, false)
	s = strings.NewReplacer("+", "p", "#", "h").Replace(s)
	return s
}

func genU32(r *vk.Rand) uint32 {
	return vk.Pick(r, []uint32{1, 2, 127, 128, 255, 256, 65535, 65536, 0xFFFFFFFE, 0xFFFFFFFF, uint32(r.U64())})
}
func genU16nz(r *vk.Rand) uint32 {
	return vk.Pick(r, []uint32{1, 2, 127, 128, 255, 256, 65534, 65535, uint32(r.Range(1, 65535))})
}
func genVBInz(r *vk.Rand) uint32 {
	return vk.Pick(r, []uint32{1, 127, 128, 16383, 16384, 2097151, 2097152, 268435455, uint32(r.Range(1, 268435455))})
}
func genPID(r *vk.Rand) uint16 {
	return vk.Pick(r, []uint16{1, 2, 255, 256, 65534, 65535, uint16(r.Range(1, 65535))})
}

func genUserProps(r *vk.Rand, ps Props) Props {
	n := 0
	switch r.Intn(4) {
	case 0:
		n = 1
	case 1:
		n = r.Range(2, 4)
	}
	for i := 0; i < n; i++ {
		k, v := GenSmallStr(r), GenSmallStr(r)
		if r.Chance(10) {
			k = ""
		}
		if r.Chance(10) {
			v = ""
		}
		if r.Chance(3) {
			v = GenStr(r, true)
		}
		if i > 0 && r.Chance(30) { // repeated key
			k = ps[len(ps)-1].Str
		}
		ps = append(ps, Prop{ID: PUserProperty, Str: k, Val: v})
	}
	return ps
}

func maybe(r *vk.Rand) bool { return r.Chance(45) }

// GenProps generates a property list permitted for ptype (ptype may be willPseudoType via GenWillProps).
func GenProps(r *vk.Rand, ptype byte) Props {
	var ps Props
	add := func(id byte) bool { return PropAllowed(id, ptype) && maybe(r) }
	if add(PPayloadFormat) {
		ps = append(ps, Prop{ID: PPayloadFormat, Num: uint32(r.Intn(2))})
	}
	if add(PMessageExpiry) {
		ps = append(ps, Prop{ID: PMessageExpiry, Num: genU32(r)})
	}
	if add(PContentType) {
		ps = append(ps, Prop{ID: PContentType, Str: GenStr(r, false)})
	}
	if add(PResponseTopic) {
		ps = append(ps, Prop{ID: PResponseTopic, Str: genTopic(r)})
	}
	if add(PCorrelationData) {
		ps = append(ps, Prop{ID: PCorrelationData, Bin: GenBin(r, false)})
	}
	if add(PSubscriptionID) {
		n := 1
		if ptype == PUBLISH {
			n = r.Range(1, 3)
		}
		for i := 0; i < n; i++ {
			ps = append(ps, Prop{ID: PSubscriptionID, Num: genVBInz(r)})
		}
	}
	if add(PSessionExpiry) {
		ps = append(ps, Prop{ID: PSessionExpiry, Num: vk.Pick(r, []uint32{0, 1, 300, 0xFFFFFFFF, genU32(r)})})
	}
	if add(PAssignedClient) {
		ps = append(ps, Prop{ID: PAssignedClient, Str: GenStr(r, false)})
	}
	if add(PServerKeepAlive) {
		ps = append(ps, Prop{ID: PServerKeepAlive, Num: vk.Pick(r, []uint32{0, 1, 60, 65535})})
	}
	if add(PAuthMethod) {
		ps = append(ps, Prop{ID: PAuthMethod, Str: GenStr(r, false)})
		if PropAllowed(PAuthData, ptype) && maybe(r) {
			ps = append(ps, Prop{ID: PAuthData, Bin: GenBin(r, false)})
		}
	}
	if add(PReqProblemInfo) {
		ps = append(ps, Prop{ID: PReqProblemInfo, Num: uint32(r.Intn(2))})
	}
	if add(PWillDelay) {
		ps = append(ps, Prop{ID: PWillDelay, Num: genU32(r)})
	}
	if add(PReqResponseInfo) {
		ps = append(ps, Prop{ID: PReqResponseInfo, Num: uint32(r.Intn(2))})
	}
	if add(PResponseInfo) {
		ps = append(ps, Prop{ID: PResponseInfo, Str: GenStr(r, false)})
	}
	if add(PServerReference) {
		ps = append(ps, Prop{ID: PServerReference, Str: GenStr(r, false)})
	}
	if add(PReasonString) {
		ps = append(ps, Prop{ID: PReasonString, Str: GenStr(r, false)})
	}
	if add(PReceiveMaximum) {
		ps = append(ps, Prop{ID: PReceiveMaximum, Num: genU16nz(r)})
	}
	if add(PTopicAliasMax) {
		ps = append(ps, Prop{ID: PTopicAliasMax, Num: vk.Pick(r, []uint32{0, 1, 10, 65535})})
	}
	if add(PTopicAlias) {
		ps = append(ps, Prop{ID: PTopicAlias, Num: genU16nz(r)})
	}
	if add(PMaximumQoS) {
		ps = append(ps, Prop{ID: PMaximumQoS, Num: uint32(r.Intn(2))})
	}
	if add(PRetainAvailable) {
		ps = append(ps, Prop{ID: PRetainAvailable, Num: uint32(r.Intn(2))})
	}
	if PropAllowed(PUserProperty, ptype) {
		ps = genUserProps(r, ps)
	}
	if add(PMaxPacketSize) {
		ps = append(ps, Prop{ID: PMaxPacketSize, Num: genU32(r)})
	}
	if add(PWildcardSubAv) {
		ps = append(ps, Prop{ID: PWildcardSubAv, Num: uint32(r.Intn(2))})
	}
	if add(PSubIDAvailable) {
		ps = append(ps, Prop{ID: PSubIDAvailable, Num: uint32(r.Intn(2))})
	}
	if add(PSharedSubAv) {
		ps = append(ps, Prop{ID: PSharedSubAv, Num: uint32(r.Intn(2))})
	}
	return ps
}

func GenWillProps(r *vk.Rand) Props { return GenProps(r, willPseudoType) }

var filterPool = []string{"a", "a/b", "a/+", "a/#", "#", "+", "+/b/#", "$share/g/a", "$share/g/+/x", "é/日", "/", "a//b", "$SYS/#"}

// GenPacket generates a well-formed packet of the given type for protocol version ver (3, 4 or 5).
func GenPacket(r *vk.Rand, ptype, ver byte) *Packet {
	p := &Packet{Type: ptype, Version: ver}
	v5 := ver == 5
	switch ptype {
	case CONNECT:
		p.ProtoLevel = ver
		p.ProtoName = "MQTT"
		if ver == 3 {
			p.ProtoName = "MQIsdp"
		}
		p.KeepAlive = vk.Pick(r, []uint16{0, 1, 60, 65535, uint16(r.Intn(65536))})
		p.ClientID = GenStr(r, true)
		if r.Bool() {
			p.ConnectFlags |= 0x02
		}
		if maybe(r) {
			p.ConnectFlags |= 0x04 | byte(r.Intn(3))<<3
			if r.Bool() {
				p.ConnectFlags |= 0x20
			}
			p.WillTopic = genTopic(r)
			p.WillPayload = GenBin(r, false)
			if v5 {
				p.WillProps = GenWillProps(r)
			}
		}
		if maybe(r) {
			p.ConnectFlags |= 0x80
			p.Username = []byte(GenStr(r, false))
		}
		if maybe(r) && (v5 || p.ConnectFlags&0x80 != 0) {
			p.ConnectFlags |= 0x40
			p.Password = GenBin(r, false)
		}
		if v5 {
			p.Props = GenProps(r, CONNECT)
			p.HasProps = true
		}
	case CONNACK:
		if v5 {
			p.Reason = vk.Pick(r, validReasons[CONNACK])
			p.Props = GenProps(r, CONNACK)
		} else {
			p.Reason = byte(r.Intn(6))
		}
		p.SessionPresent = p.Reason == 0 && r.Bool()
		p.HasReason = true
	case PUBLISH:
		p.QoS = byte(r.Intn(3))
		p.Retain = r.Bool()
		p.Dup = p.QoS > 0 && r.Bool()
		if p.QoS > 0 {
			p.PacketID = genPID(r)
		}
		p.Topic = genTopic(r)
		switch r.Intn(12) {
		case 0:
			p.Payload = []byte{}
		case 1:
			p.Payload = r.Bytes(r.Range(1000, 70000))
		default:
			p.Payload = r.Bytes(r.Range(1, 40))
		}
		if v5 {
			p.Props = GenProps(r, PUBLISH)
			if p.Props.Has(PTopicAlias) && r.Chance(40) {
				p.Topic = ""
			}
		}
	case PUBACK, PUBREC, PUBREL, PUBCOMP:
		p.PacketID = genPID(r)
		if v5 {
			p.Reason = vk.Pick(r, validReasons[ptype])
			if r.Chance(60) {
				p.Reason = 0
			}
			if maybe(r) {
				p.Props = GenProps(r, ptype)
			}
		}
	case SUBSCRIBE:
		p.PacketID = genPID(r)
		n := r.Range(1, 4)
		for i := 0; i < n; i++ {
			f := SubFilter{Filter: vk.Pick(r, filterPool), Options: byte(r.Intn(3))}
			if r.Chance(10) {
				f.Filter = GenStr(r, false)
			}
			if v5 {
				if r.Bool() && !strings.HasPrefix(f.Filter, "$share/") {
					f.Options |= 4
				}
				if r.Bool() {
					f.Options |= 8
				}
				f.Options |= byte(r.Intn(3)) << 4
			}
			p.Filters = append(p.Filters, f)
		}
		if v5 {
			p.Props = GenProps(r, SUBSCRIBE)
		}
	case UNSUBSCRIBE:
		p.PacketID = genPID(r)
		n := r.Range(1, 4)
		for i := 0; i < n; i++ {
			f := SubFilter{Filter: vk.Pick(r, filterPool)}
			if r.Chance(10) {
				f.Filter = GenStr(r, false)
			}
			p.Filters = append(p.Filters, f)
		}
		if v5 {
			p.Props = GenProps(r, UNSUBSCRIBE)
		}
	case SUBACK:
		p.PacketID = genPID(r)
		n := r.Range(1, 4)
		for i := 0; i < n; i++ {
			if v5 {
				p.ReasonCodes = append(p.ReasonCodes, vk.Pick(r, validReasons[SUBACK]))
			} else {
				p.ReasonCodes = append(p.ReasonCodes, vk.Pick(r, []byte{0, 1, 2, 0x80}))
			}
		}
		if v5 {
			p.Props = GenProps(r, SUBACK)
		}
	case UNSUBACK:
		p.PacketID = genPID(r)
		if v5 {
			n := r.Range(1, 4)
			for i := 0; i < n; i++ {
				p.ReasonCodes = append(p.ReasonCodes, vk.Pick(r, validReasons[UNSUBACK]))
			}
			p.Props = GenProps(r, UNSUBACK)
		}
	case DISCONNECT:
		if v5 {
			p.Reason = vk.Pick(r, validReasons[DISCONNECT])
			if r.Chance(40) {
				p.Reason = 0
			}
			if maybe(r) {
				p.Props = GenProps(r, DISCONNECT)
			}
		}
	case AUTH:
		p.Version = 5
		p.Reason = vk.Pick(r, validReasons[AUTH])
		if maybe(r) {
			p.Props = GenProps(r, AUTH)
		}
	}
	return p
}
