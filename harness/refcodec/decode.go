package refcodec

import (
	"fmt"
)

// valid v5 reason codes per packet type (MQTT 5 tables 3.2.2.2, 3.4.2.1, 3.5.2.1, 3.6.2.1, 3.7.2.1, 3.9.3, 3.11.3, 3.14.2.1, 3.15.2.1)
var validReasons = map[byte][]byte{
	CONNACK:    {0x00, 0x80, 0x81, 0x82, 0x83, 0x84, 0x85, 0x86, 0x87, 0x88, 0x89, 0x8A, 0x8C, 0x90, 0x95, 0x97, 0x99, 0x9A, 0x9B, 0x9C, 0x9D, 0x9F},
	PUBACK:     {0x00, 0x10, 0x80, 0x83, 0x87, 0x90, 0x91, 0x97, 0x99},
	PUBREC:     {0x00, 0x10, 0x80, 0x83, 0x87, 0x90, 0x91, 0x97, 0x99},
	PUBREL:     {0x00, 0x92},
	PUBCOMP:    {0x00, 0x92},
	SUBACK:     {0x00, 0x01, 0x02, 0x80, 0x83, 0x87, 0x8F, 0x91, 0x97, 0x9E, 0xA1, 0xA2},
	UNSUBACK:   {0x00, 0x11, 0x80, 0x83, 0x87, 0x8F, 0x91},
	DISCONNECT: {0x00, 0x04, 0x80, 0x81, 0x82, 0x83, 0x87, 0x89, 0x8B, 0x8D, 0x8E, 0x8F, 0x90, 0x93, 0x94, 0x95, 0x96, 0x97, 0x98, 0x99, 0x9A, 0x9B, 0x9C, 0x9D, 0x9E, 0xA0, 0xA1, 0xA2},
	AUTH:       {0x00, 0x18, 0x19},
}

func ReasonValid(ptype, code byte) bool {
	for _, c := range validReasons[ptype] {
		if c == code {
			return true
		}
	}
	return false
}

// DecodeOne decodes the first packet of a byte stream. version is the protocol level in
// force on the connection (ignored for CONNECT, which carries its own). It returns ErrShort
// (wrapped) when the stream ends inside the packet. strict enables every validity rule.
func DecodeOne(version byte, data []byte, strict bool) (*Packet, int, error) {
	if len(data) < 2 {
		return nil, 0, ErrShort
	}
	rl, n, err := DecodeVBI(data[1:])
	if err != nil {
		return nil, 0, fmt.Errorf("remaining length: %w", err)
	}
	total := 1 + n + rl
	if len(data) < total {
		return nil, 0, ErrShort
	}
	p, err := DecodeBody(version, data[0], data[1+n:total], strict)
	if err != nil {
		return nil, total, err
	}
	p.WireLen = total
	return p, total, nil
}

// DecodeStream decodes a complete byte log. rest is the number of trailing bytes that do not
// form a complete packet (0 for a clean stream).
func DecodeStream(version byte, data []byte, strict bool) (pkts []*Packet, rest int, err error) {
	off := 0
	for off < len(data) {
		p, n, e := DecodeOne(version, data[off:], strict)
		if e != nil {
			if isShort(e) {
				return pkts, len(data) - off, nil
			}
			return pkts, len(data) - off, fmt.Errorf("offset %d: %w", off, e)
		}
		if p.Type == CONNECT {
			version = p.ProtoLevel
		}
		pkts = append(pkts, p)
		off += n
	}
	return pkts, 0, nil
}

func isShort(e error) bool {
	for e != nil {
		if e == ErrShort {
			return true
		}
		u, ok := e.(interface{ Unwrap() error })
		if !ok {
			return false
		}
		e = u.Unwrap()
	}
	return false
}

func IsShort(e error) bool { return isShort(e) }

// DecodeBody decodes a packet given its first header byte and exactly its body bytes.
func DecodeBody(version byte, hdr byte, body []byte, strict bool) (*Packet, error) {
	p := &Packet{Type: hdr >> 4, Flags: hdr & 0x0f, Version: version}
	mal := func(f string, a ...any) error {
		return fmt.Errorf("%w: %s: %s", ErrMalformed, TypeNames[p.Type], fmt.Sprintf(f, a...))
	}
	if p.Type == 0 {
		return nil, mal("reserved packet type 0")
	}
	if p.Type == AUTH && version < 5 && strict {
		return nil, mal("AUTH before MQTT 5")
	}
	switch p.Type {
	case PUBLISH:
		p.Dup = p.Flags&8 != 0
		p.QoS = p.Flags >> 1 & 3
		p.Retain = p.Flags&1 != 0
		if p.QoS == 3 {
			return nil, mal("QoS 3")
		}
		if strict && p.QoS == 0 && p.Dup {
			return nil, mal("DUP with QoS 0")
		}
	case PUBREL, SUBSCRIBE, UNSUBSCRIBE:
		if p.Flags != 2 {
			return nil, mal("flags %04b must be 0010", p.Flags)
		}
	default:
		if p.Flags != 0 {
			return nil, mal("flags %04b must be 0000", p.Flags)
		}
	}
	r := &reader{b: body}
	v5 := version == 5
	var err error
	wrap := func(what string, e error) error { return fmt.Errorf("%s: %s: %w", TypeNames[p.Type], what, e) }

	switch p.Type {
	case CONNECT:
		if p.ProtoName, err = r.str(); err != nil {
			return nil, wrap("protocol name", err)
		}
		if p.ProtoLevel, err = r.u8(); err != nil {
			return nil, wrap("protocol level", err)
		}
		p.Version = p.ProtoLevel
		v5 = p.ProtoLevel == 5
		if p.ConnectFlags, err = r.u8(); err != nil {
			return nil, wrap("connect flags", err)
		}
		if p.KeepAlive, err = r.u16(); err != nil {
			return nil, wrap("keep alive", err)
		}
		if v5 {
			if p.Props, err = decodeProps(r, CONNECT, strict); err != nil {
				return nil, wrap("properties", err)
			}
			p.HasProps = true
		}
		if p.ClientID, err = r.str(); err != nil {
			return nil, wrap("client id", err)
		}
		if p.WillFlag() {
			if v5 {
				if p.WillProps, err = decodeProps(r, willPseudoType, strict); err != nil {
					return nil, wrap("will properties", err)
				}
			}
			if p.WillTopic, err = r.str(); err != nil {
				return nil, wrap("will topic", err)
			}
			if p.WillPayload, err = r.bin(); err != nil {
				return nil, wrap("will payload", err)
			}
		}
		if p.UsernameFlag() {
			var s string
			if s, err = r.str(); err != nil {
				return nil, wrap("username", err)
			}
			p.Username = []byte(s)
		}
		if p.PasswordFlag() {
			if p.Password, err = r.bin(); err != nil {
				return nil, wrap("password", err)
			}
		}
		if strict && r.left() != 0 {
			return nil, mal("%d trailing bytes", r.left())
		}
	case CONNACK:
		if p.AckFlags, err = r.u8(); err != nil {
			return nil, wrap("ack flags", err)
		}
		if strict && p.AckFlags > 1 {
			return nil, mal("acknowledge flags 0x%02x", p.AckFlags)
		}
		p.SessionPresent = p.AckFlags&1 != 0
		if p.Reason, err = r.u8(); err != nil {
			return nil, wrap("reason", err)
		}
		p.HasReason = true
		if v5 {
			if p.Props, err = decodeProps(r, CONNACK, strict); err != nil {
				return nil, wrap("properties", err)
			}
			p.HasProps = true
			if strict && !ReasonValid(CONNACK, p.Reason) {
				return nil, mal("reason code 0x%02x not defined for CONNACK", p.Reason)
			}
		} else if strict && p.Reason > 5 {
			return nil, mal("MQTT 3 return code %d > 5", p.Reason)
		}
		if strict && p.Reason != 0 && p.SessionPresent {
			return nil, mal("session present with non-zero code")
		}
		if strict && r.left() != 0 {
			return nil, mal("%d trailing bytes", r.left())
		}
	case PUBLISH:
		if p.Topic, err = r.str(); err != nil {
			return nil, wrap("topic", err)
		}
		if p.QoS > 0 {
			if p.PacketID, err = r.u16(); err != nil {
				return nil, wrap("packet id", err)
			}
			if strict && p.PacketID == 0 {
				return nil, mal("packet id 0")
			}
		}
		if v5 {
			if p.Props, err = decodeProps(r, PUBLISH, strict); err != nil {
				return nil, wrap("properties", err)
			}
			p.HasProps = true
		}
		p.Payload = append([]byte{}, r.b[r.off:]...)
	case PUBACK, PUBREC, PUBREL, PUBCOMP:
		if p.PacketID, err = r.u16(); err != nil {
			return nil, wrap("packet id", err)
		}
		if v5 && r.left() > 0 {
			p.Reason, _ = r.u8()
			p.HasReason = true
			if r.left() > 0 {
				if p.Props, err = decodeProps(r, p.Type, strict); err != nil {
					return nil, wrap("properties", err)
				}
				p.HasProps = true
			}
			if strict && !ReasonValid(p.Type, p.Reason) {
				return nil, mal("reason code 0x%02x not defined", p.Reason)
			}
		}
		if strict && r.left() != 0 {
			return nil, mal("%d trailing bytes", r.left())
		}
	case SUBSCRIBE:
		if p.PacketID, err = r.u16(); err != nil {
			return nil, wrap("packet id", err)
		}
		if v5 {
			if p.Props, err = decodeProps(r, SUBSCRIBE, strict); err != nil {
				return nil, wrap("properties", err)
			}
			p.HasProps = true
		}
		for r.left() > 0 {
			var f SubFilter
			if f.Filter, err = r.str(); err != nil {
				return nil, wrap("filter", err)
			}
			if f.Options, err = r.u8(); err != nil {
				return nil, wrap("options", err)
			}
			if strict {
				if f.Options&3 == 3 {
					return nil, mal("subscription QoS 3")
				}
				if v5 && (f.Options&0xC0 != 0 || f.Options>>4&3 == 3) {
					return nil, mal("subscription options 0x%02x", f.Options)
				}
				if !v5 && f.Options&0xFC != 0 {
					return nil, mal("reserved option bits 0x%02x", f.Options)
				}
			}
			p.Filters = append(p.Filters, f)
		}
		if strict && len(p.Filters) == 0 {
			return nil, mal("no filters")
		}
	case UNSUBSCRIBE:
		if p.PacketID, err = r.u16(); err != nil {
			return nil, wrap("packet id", err)
		}
		if v5 {
			if p.Props, err = decodeProps(r, UNSUBSCRIBE, strict); err != nil {
				return nil, wrap("properties", err)
			}
			p.HasProps = true
		}
		for r.left() > 0 {
			var f SubFilter
			if f.Filter, err = r.str(); err != nil {
				return nil, wrap("filter", err)
			}
			p.Filters = append(p.Filters, f)
		}
		if strict && len(p.Filters) == 0 {
			return nil, mal("no filters")
		}
	case SUBACK:
		if p.PacketID, err = r.u16(); err != nil {
			return nil, wrap("packet id", err)
		}
		if v5 {
			if p.Props, err = decodeProps(r, SUBACK, strict); err != nil {
				return nil, wrap("properties", err)
			}
			p.HasProps = true
		}
		p.ReasonCodes = append([]byte{}, r.b[r.off:]...)
		if strict {
			if len(p.ReasonCodes) == 0 {
				return nil, mal("no reason codes")
			}
			for _, c := range p.ReasonCodes {
				if v5 && !ReasonValid(SUBACK, c) {
					return nil, mal("reason code 0x%02x not defined for SUBACK", c)
				}
				if !v5 && !(c <= 2 || c == 0x80) {
					return nil, mal("MQTT 3 SUBACK return code 0x%02x", c)
				}
			}
		}
	case UNSUBACK:
		if p.PacketID, err = r.u16(); err != nil {
			return nil, wrap("packet id", err)
		}
		if v5 {
			if p.Props, err = decodeProps(r, UNSUBACK, strict); err != nil {
				return nil, wrap("properties", err)
			}
			p.HasProps = true
			p.ReasonCodes = append([]byte{}, r.b[r.off:]...)
			if strict {
				if len(p.ReasonCodes) == 0 {
					return nil, mal("no reason codes")
				}
				for _, c := range p.ReasonCodes {
					if !ReasonValid(UNSUBACK, c) {
						return nil, mal("reason code 0x%02x not defined for UNSUBACK", c)
					}
				}
			}
		} else if strict && r.left() != 0 {
			return nil, mal("MQTT 3 UNSUBACK has a payload")
		}
	case PINGREQ, PINGRESP:
		if r.left() != 0 {
			return nil, mal("non-empty body")
		}
	case DISCONNECT, AUTH:
		if !v5 {
			if r.left() != 0 && (strict || p.Type == DISCONNECT) {
				return nil, mal("MQTT 3 %s with body", TypeNames[p.Type])
			}
			break
		}
		if r.left() > 0 {
			p.Reason, _ = r.u8()
			p.HasReason = true
			if r.left() > 0 {
				if p.Props, err = decodeProps(r, p.Type, strict); err != nil {
					return nil, wrap("properties", err)
				}
				p.HasProps = true
			}
		}
		if strict && !ReasonValid(p.Type, p.Reason) {
			return nil, mal("reason code 0x%02x not defined", p.Reason)
		}
		if strict && r.left() != 0 {
			return nil, mal("%d trailing bytes", r.left())
		}
	}
	return p, nil
}
