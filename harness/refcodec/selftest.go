package refcodec

import (
	"bytes"
	"encoding/hex"
	"fmt"
	"strings"
)

// hand-assembled vectors (from the field layouts in the OASIS texts, not from the broker's catalogue)
var vectors = []struct {
	ver  byte
	hex  string
	want string
}{
	{4, "10 0c 00 04 4d 51 54 54 04 02 00 3c 00 00", "CONNECT"},
	{4, "10 12 00 04 4d 51 54 54 04 02 00 3c 00 06 63 6c 69 65 6e 74", "CONNECT"},
	{5, "10 13 00 04 4d 51 54 54 05 02 00 3c 05 11 00 00 00 0a 00 01 61 ", "CONNECT"},
	{4, "20 02 00 00", "CONNACK"},
	{5, "20 03 00 00 00", "CONNACK"},
	{5, "20 06 01 00 03 21 00 14", "CONNACK"},
	{4, "30 05 00 01 61 68 69", "PUBLISH"},
	{4, "3b 07 00 01 61 00 0a 68 69", "PUBLISH"},
	{5, "32 0d 00 01 61 00 0a 05 02 00 00 00 3c 68 69", "PUBLISH"},
	{5, "40 02 00 0a", "PUBACK"},
	{5, "40 03 00 0a 10", "PUBACK"},
	{5, "50 04 00 0a 00 00", "PUBREC"},
	{5, "62 02 00 0a", "PUBREL"},
	{4, "82 06 00 01 00 01 61 01", "SUBSCRIBE"},
	{5, "82 09 00 01 02 0b 07 00 01 61 2d", "SUBSCRIBE"},
	{4, "90 03 00 01 01", "SUBACK"},
	{5, "90 04 00 01 00 02", "SUBACK"},
	{4, "a2 05 00 02 00 01 61", "UNSUBSCRIBE"},
	{4, "b0 02 00 02", "UNSUBACK"},
	{5, "b0 04 00 02 00 11", "UNSUBACK"},
	{4, "c0 00", "PINGREQ"},
	{4, "d0 00", "PINGRESP"},
	{4, "e0 00", "DISCONNECT"},
	{5, "e0 00", "DISCONNECT"},
	{5, "e0 01 04", "DISCONNECT"},
	{5, "e0 07 00 05 11 00 00 00 05", "DISCONNECT"},
	{5, "f0 00", "AUTH"},
	{5, "f0 01 18", "AUTH"},
}

var badVectors = []struct {
	ver byte
	hex string
}{
	{4, "36 05 00 01 61 00 01"},                // qos 3
	{4, "38 05 00 01 61 68 69"},                // dup with qos 0
	{4, "80 06 00 01 00 01 61 01"},             // subscribe flags 0000
	{5, "20 03 02 00 00"},                      // connack reserved flags
	{4, "20 02 00 06"},                         // v3 return code 6
	{5, "40 03 00 0a 05"},                      // puback reason 5 undefined
	{4, "90 03 00 01 03"},                      // v3 suback code 3
	{5, "32 0a 00 01 61 00 0a 02 23 00 68 69"}, // topic alias truncated inside props -> malformed/short
	{5, "30 08 00 01 61 03 24 01 68 69"},       // Maximum QoS property in PUBLISH
	{4, "30 05 00 01 ff 68 69"},                // invalid utf-8 topic
}

func unhex(s string) []byte {
	b, err := hex.DecodeString(strings.ReplaceAll(s, " ", ""))
	if err != nil {
		panic(err)
	}
	return b
}

// SelfTest checks the reference codec against its hand-assembled vectors:
// decode must succeed strictly, re-encoding must reproduce the bytes, bad vectors must be rejected.
func SelfTest() error {
	for _, v := range vectors {
		b := unhex(v.hex)
		p, n, err := DecodeOne(v.ver, b, true)
		if err != nil || n != len(b) {
			return fmt.Errorf("refcodec selftest: %s: decode err=%v n=%d", v.hex, err, n)
		}
		if TypeNames[p.Type] != v.want {
			return fmt.Errorf("refcodec selftest: %s: type %s", v.hex, TypeNames[p.Type])
		}
		form := FormAuto
		if p.HasProps && (p.Type == PUBACK || p.Type == PUBREC || p.Type == PUBREL || p.Type == PUBCOMP || p.Type == DISCONNECT || p.Type == AUTH) {
			form = FormFull
		} else if p.HasReason && p.Type != CONNACK {
			form = FormReason
		}
		e := Encode(p, form)
		if !bytes.Equal(e, b) {
			return fmt.Errorf("refcodec selftest: %s: re-encoded as % x", v.hex, e)
		}
	}
	for _, v := range badVectors {
		if _, _, err := DecodeOne(v.ver, unhex(v.hex), true); err == nil {
			return fmt.Errorf("refcodec selftest: bad vector %s accepted", v.hex)
		}
	}
	return nil
}
