// Package refcodec is an independent MQTT 3.1 / 3.1.1 / 5.0 encoder, decoder and
// validator written from the OASIS specifications. It imports nothing from the
// broker under test and is the oracle for wire-level properties.
package refcodec

import "errors"

const MaxVBI = 268435455

var (
	ErrShort     = errors.New("refcodec: truncated")
	ErrMalformed = errors.New("refcodec: malformed")
)

// EncodeVBI returns the minimal variable byte integer encoding (MQTT 1.5.5).
func EncodeVBI(n int) []byte {
	out := make([]byte, 0, 4)
	for {
		b := byte(n % 128)
		n /= 128
		if n > 0 {
			b |= 0x80
		}
		out = append(out, b)
		if n == 0 {
			return out
		}
	}
}

// AppendVBI appends the encoding to dst.
func AppendVBI(dst []byte, n int) []byte {
	for {
		b := byte(n % 128)
		n /= 128
		if n > 0 {
			b |= 0x80
		}
		dst = append(dst, b)
		if n == 0 {
			return dst
		}
	}
}

// DecodeVBI decodes a variable byte integer from b. At most four bytes are allowed;
// a fourth byte with the continuation bit set is malformed. Returns value, bytes consumed.
func DecodeVBI(b []byte) (int, int, error) {
	v := 0
	mult := 1
	for i := 0; i < 4; i++ {
		if i >= len(b) {
			return 0, i, ErrShort
		}
		v += int(b[i]&0x7f) * mult
		if b[i]&0x80 == 0 {
			return v, i + 1, nil
		}
		mult *= 128
	}
	return 0, 4, ErrMalformed
}
