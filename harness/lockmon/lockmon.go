// Package lockmon provides drop-in replacements for sync.Mutex and sync.RWMutex that monitor
// lock usage at run time. The check script copies /repo to a scratch directory, rewrites
// sync.(RW)Mutex to lockmon.(RW)Mutex in the non-test sources and builds the harness against
// that copy, so every lock operation of the broker passes through here.
//
// Reported (each with the acquiring site and, where it applies, the site of the earlier acquisition):
//
//	reentrant-rlock  a goroutine takes a read lock it already holds (deadlocks as soon as a writer queues in between)
//	self-deadlock    a goroutine takes a lock (any mode) it already holds in write mode, or a write lock it holds in read mode
//	wait-cycle       a goroutine about to block on a lock whose holders (or queued writers) are themselves blocked on a
//	                 lock that this goroutine holds: a real deadlock, detected without waiting for a timeout
//
// The monitor's own state lives under one mutex and is updated together with the operation it shadows.
package lockmon

import (
	"bytes"
	"encoding/json"
	"fmt"
	"os"
	"runtime"
	"strconv"
	"sync"
	"sync/atomic"
	"time"
	"unsafe"
)

type held struct {
	lock  uintptr
	write bool
	site  string
}

type waiting struct {
	lock  uintptr
	write bool
	site  string
}

var (
	mu       sync.Mutex
	heldBy   = map[int64][]held{}          // goroutine -> locks held
	holders  = map[uintptr]map[int64]int{} // lock -> goroutine -> count (read holders may be several)
	wholder  = map[uintptr]int64{}         // lock -> goroutine holding it in write mode
	waitOn   = map[int64]waiting{}         // goroutine -> what it is blocked on
	siteCnt  = map[string]int64{}
	reported = map[string]bool{}
	nReports atomic.Int64

	yieldPct = envInt("LOCKMON_YIELD", 0)
	prng     atomic.Uint64
	logPath  = os.Getenv("LOCKMON_LOG")
	logMu    sync.Mutex
	ops      atomic.Int64
)

func init() { prng.Store(uint64(envInt("LOCKMON_SEED", 1))*0x9E3779B97F4A7C15 + 1) }

func envInt(k string, def int) int {
	if v, err := strconv.Atoi(os.Getenv(k)); err == nil {
		return v
	}
	return def
}

func goid() int64 {
	var buf [64]byte
	n := runtime.Stack(buf[:], false)
	s := buf[10:n]
	i := bytes.IndexByte(s, ' ')
	if i < 0 {
		return -1
	}
	v, _ := strconv.ParseInt(string(s[:i]), 10, 64)
	return v
}

func site(skip int) string {
	_, f, l, ok := runtime.Caller(skip)
	if !ok {
		return "?"
	}
	// keep the path below the module root
	for i := len(f) - 1; i >= 0; i-- {
		if f[i] == '/' {
			j := i - 1
			for j >= 0 && f[j] != '/' {
				j--
			}
			f = f[j+1:]
			break
		}
	}
	return f + ":" + strconv.Itoa(l)
}

func maybeYield() {
	if yieldPct <= 0 {
		return
	}
	v := prng.Add(0x9E3779B97F4A7C15)
	v = (v ^ (v >> 30)) * 0xBF58476D1CE4E5B9
	v ^= v >> 27
	switch r := int(v % 100); {
	case r < yieldPct/2:
		runtime.Gosched()
	case r < yieldPct:
		time.Sleep(time.Duration(v>>40%30) * time.Microsecond)
	}
}

type Report struct {
	Kind  string   `json:"kind"`
	Site  string   `json:"site"`
	Prev  string   `json:"earlier_site,omitempty"`
	Chain []string `json:"chain,omitempty"`
	Stack string   `json:"stack,omitempty"`
}

func report(r Report) {
	key := r.Kind + "|" + r.Site + "|" + r.Prev
	if reported[key] {
		return
	}
	reported[key] = true
	nReports.Add(1)
	buf := make([]byte, 4096)
	r.Stack = string(buf[:runtime.Stack(buf, false)])
	b, _ := json.Marshal(map[string]any{"report": r})
	writeLog(b)
}

func writeLog(b []byte) {
	if logPath == "" {
		fmt.Fprintln(os.Stderr, "LOCKMON "+string(b))
		return
	}
	logMu.Lock()
	defer logMu.Unlock()
	f, err := os.OpenFile(logPath, os.O_APPEND|os.O_CREATE|os.O_WRONLY, 0o644)
	if err != nil {
		return
	}
	f.Write(append(b, '\n'))
	f.Close()
}

// Flush writes the lock-site counters; call it before the process exits.
func Flush() {
	mu.Lock()
	sc := map[string]int64{}
	for k, v := range siteCnt {
		sc[k] = v
	}
	mu.Unlock()
	b, _ := json.Marshal(map[string]any{"sites": sc, "operations": ops.Load(), "reports": nReports.Load()})
	writeLog(b)
}

// before is called with mu held, before goroutine g tries to take lock l.
func before(g int64, l uintptr, write bool, st string) {
	siteCnt[st]++
	ops.Add(1)
	for _, h := range heldBy[g] {
		if h.lock != l {
			continue
		}
		switch {
		case !write && !h.write:
			report(Report{Kind: "reentrant-rlock", Site: st, Prev: h.site})
		default:
			report(Report{Kind: "self-deadlock", Site: st, Prev: h.site})
		}
	}
}

func acquired(g int64, l uintptr, write bool, st string) {
	heldBy[g] = append(heldBy[g], held{l, write, st})
	m := holders[l]
	if m == nil {
		m = map[int64]int{}
		holders[l] = m
	}
	m[g]++
	if write {
		wholder[l] = g
	}
}

func released(g int64, l uintptr, write bool) {
	hs := heldBy[g]
	found := false
	for i := len(hs) - 1; i >= 0; i-- {
		if hs[i].lock == l && hs[i].write == write {
			heldBy[g] = append(hs[:i], hs[i+1:]...)
			found = true
			break
		}
	}
	if len(heldBy[g]) == 0 {
		delete(heldBy, g)
	}
	if !found {
		// unlocked by a goroutine other than the locker (legal for sync.Mutex): release on behalf of a holder
		for og, ohs := range heldBy {
			for i := len(ohs) - 1; i >= 0; i-- {
				if ohs[i].lock == l && ohs[i].write == write {
					heldBy[og] = append(ohs[:i], ohs[i+1:]...)
					g = og
					found = true
					break
				}
			}
			if found {
				break
			}
		}
	}
	if m := holders[l]; m != nil {
		if m[g]--; m[g] <= 0 {
			delete(m, g)
		}
		if len(m) == 0 {
			delete(holders, l)
		}
	}
	if write {
		delete(wholder, l)
	}
}

// blockers returns the goroutines that g has to wait for if it blocks on l now.
func blockers(g int64, l uintptr, write bool) []int64 {
	var out []int64
	for h := range holders[l] {
		if h != g {
			out = append(out, h)
		}
	}
	if !write {
		// writer preference: a reader also waits for writers already queued on l
		for og, w := range waitOn {
			if og != g && w.lock == l && w.write {
				out = append(out, og)
			}
		}
	}
	return out
}

// willBlock is called with mu held when TryLock failed: record the wait and look for a cycle.
func willBlock(g int64, l uintptr, write bool, st string) {
	waitOn[g] = waiting{l, write, st}
	// depth-first search over goroutines: g waits for B1.., each Bi may wait for ...
	seen := map[int64]bool{}
	var chain []string
	var dfs func(x int64, depth int) bool
	dfs = func(x int64, depth int) bool {
		if depth > 16 || seen[x] {
			return false
		}
		seen[x] = true
		w, ok := waitOn[x]
		if !ok {
			return false
		}
		for _, b := range blockers(x, w.lock, w.write) {
			chain = append(chain, fmt.Sprintf("goroutine %d waits at %s for goroutine %d", x, w.site, b))
			if b == g {
				return true
			}
			if dfs(b, depth+1) {
				return true
			}
			chain = chain[:len(chain)-1]
		}
		return false
	}
	if dfs(g, 0) {
		report(Report{Kind: "wait-cycle", Site: st, Chain: append([]string{}, chain...)})
	}
}

func unblocked(g int64) { delete(waitOn, g) }

// ---------------------------------------------------------------- Mutex

type Mutex struct{ m sync.Mutex }

func (x *Mutex) key() uintptr { return uintptr(unsafe.Pointer(x)) }

func (x *Mutex) Lock() {
	maybeYield()
	g, st, l := goid(), site(2), x.key()
	mu.Lock()
	before(g, l, true, st)
	if x.m.TryLock() {
		acquired(g, l, true, st)
		mu.Unlock()
		return
	}
	willBlock(g, l, true, st)
	mu.Unlock()
	x.m.Lock()
	mu.Lock()
	unblocked(g)
	acquired(g, l, true, st)
	mu.Unlock()
}

func (x *Mutex) TryLock() bool {
	g, st, l := goid(), site(2), x.key()
	mu.Lock()
	defer mu.Unlock()
	if x.m.TryLock() {
		acquired(g, l, true, st)
		return true
	}
	return false
}

func (x *Mutex) Unlock() {
	g, l := goid(), x.key()
	mu.Lock()
	released(g, l, true)
	x.m.Unlock()
	mu.Unlock()
	maybeYield()
}

// ---------------------------------------------------------------- RWMutex

type RWMutex struct{ m sync.RWMutex }

func (x *RWMutex) key() uintptr { return uintptr(unsafe.Pointer(x)) }

func (x *RWMutex) Lock() {
	maybeYield()
	g, st, l := goid(), site(2), x.key()
	mu.Lock()
	before(g, l, true, st)
	if x.m.TryLock() {
		acquired(g, l, true, st)
		mu.Unlock()
		return
	}
	willBlock(g, l, true, st)
	mu.Unlock()
	x.m.Lock()
	mu.Lock()
	unblocked(g)
	acquired(g, l, true, st)
	mu.Unlock()
}

func (x *RWMutex) Unlock() {
	g, l := goid(), x.key()
	mu.Lock()
	released(g, l, true)
	x.m.Unlock()
	mu.Unlock()
	maybeYield()
}

func (x *RWMutex) RLock() {
	maybeYield()
	g, st, l := goid(), site(2), x.key()
	mu.Lock()
	before(g, l, false, st)
	if x.m.TryRLock() {
		acquired(g, l, false, st)
		mu.Unlock()
		return
	}
	willBlock(g, l, false, st)
	mu.Unlock()
	x.m.RLock()
	mu.Lock()
	unblocked(g)
	acquired(g, l, false, st)
	mu.Unlock()
}

func (x *RWMutex) RUnlock() {
	g, l := goid(), x.key()
	mu.Lock()
	released(g, l, false)
	x.m.RUnlock()
	mu.Unlock()
	maybeYield()
}

func (x *RWMutex) TryLock() bool {
	g, st, l := goid(), site(2), x.key()
	mu.Lock()
	defer mu.Unlock()
	if x.m.TryLock() {
		acquired(g, l, true, st)
		return true
	}
	return false
}

func (x *RWMutex) TryRLock() bool {
	g, st, l := goid(), site(2), x.key()
	mu.Lock()
	defer mu.Unlock()
	if x.m.TryRLock() {
		acquired(g, l, false, st)
		return true
	}
	return false
}

// RLocker mirrors sync.RWMutex.RLocker.
func (x *RWMutex) RLocker() sync.Locker { return (*rlocker)(x) }

type rlocker RWMutex

func (r *rlocker) Lock()   { (*RWMutex)(r).RLock() }
func (r *rlocker) Unlock() { (*RWMutex)(r).RUnlock() }
