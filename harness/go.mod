module verif/harness

go 1.21

require (
	github.com/anishathalye/porcupine v1.3.0
	github.com/mochi-mqtt/server/v2 v2.0.0
)

replace github.com/mochi-mqtt/server/v2 => /repo
