module verif/harness

go 1.21

require (
	github.com/anishathalye/porcupine v1.3.0
	github.com/gorilla/websocket v1.5.0
	github.com/mochi-mqtt/server/v2 v2.0.0
)

require (
	github.com/rs/xid v1.4.0 // indirect
	gopkg.in/yaml.v3 v3.0.1 // indirect
)

replace github.com/mochi-mqtt/server/v2 => /repo
