package main

import (
	"encoding/json"
	"fmt"
	"os"
	"strconv"

	"verif/harness/hist"
)

// child "histdbg <replay.json> <upto-step>": re-executes the history of a witness up to a step and dumps, per client id,
// the broker's in-flight records and flow-control quotas (debugging aid).
func init() {
	children["histdbg"] = func(args []string) {
		b, _ := os.ReadFile(args[0])
		upto, _ := strconv.Atoi(args[1])
		var doc struct {
			Violation struct {
				Witness struct {
					Config  *hist.Config `json:"config"`
					SlotIDs []string     `json:"slot_client_ids"`
					Ops     []hist.Op    `json:"ops"`
				} `json:"witness"`
			} `json:"violation"`
		}
		if json.Unmarshal(b, &doc) != nil || doc.Violation.Witness.Config == nil {
			fmt.Println("not a history witness")
			return
		}
		w := doc.Violation.Witness
		ops := w.Ops
		if upto+1 < len(ops) {
			ops = ops[:upto+1]
		}
		o := &hist.SimOptions{Finish: func(s *hist.Sim) {
			for _, id := range w.SlotIDs {
				if cl, ok := s.B.S.Clients.Get(id); ok {
					fmt.Printf("client %s remote=%s closed=%v quotas=%+v\n", id, cl.Net.Remote, cl.Closed(), cl.VerifQuotas())
					for _, pk := range cl.VerifInflight() {
						fmt.Printf("   inflight id=%d type=%d qos=%d payload=%q expiry=%d\n", pk.PacketID, pk.FixedHeader.Type, pk.FixedHeader.Qos, string(pk.Payload), pk.Expiry)
					}
				}
			}
			evs, _ := s.B.EventsSince(0)
			for _, e := range evs[max(0, len(evs)-25):] {
				fmt.Printf("   hook %s client=%s topic=%s payload=%s pid=%d type=%d\n", e.Hook, e.Client, e.Topic, e.Payload, e.PID, e.Type)
			}
		}}
		res := hist.RunCase(w.Config, w.SlotIDs, ops, true, o)
		for _, l := range res.Trace[len(res.Trace)-12:] {
			fmt.Println(l)
		}
	}
}
