package main

import (
	"fmt"
	"time"

	"verif/harness/eng"
	"verif/harness/hist"
	rc "verif/harness/refcodec"
	"verif/harness/vk"
)

func init() {
	register("C24", "exploration", checkC24)
	register("C25", "exploration", checkC25)
	register("C34", "exploration", checkC34)
	register("C38", "exploration", checkC38)
	register("C40", "exploration", checkC40)
}

func checkC24(c *vk.Ctx) {
	c.Rule = "random histories with subscribers announcing Topic Alias Maximum 0-3 over 4 topics (outbound aliases), binding publishes that are deferred behind Receive Maximum / refused by Maximum Packet Size / queued while offline, reconnects with queued aliased messages, and publishers binding, rebinding and using inbound aliases 1-3 against a server maximum of 0/2/65535 (incl. unbound and out-of-range aliases): " +
		"every PUBLISH the broker sends has a non-empty topic or an alias bound earlier on the same connection to that message's topic, alias <= the client's maximum and none when it is 0; inbound publishes with an alias above the server maximum or an unbound alias with empty topic are rejected and not routed; bound aliases resolve to the last binding on the connection; a probe delivers Topic-Alias-Maximum + 60 distinct topics (maximum 65535 and 7) and then early topics again to one client and checks that every PUBLISH resolves to the topic named in its payload. nontrivial = histories with >=1 aliased PUBLISH in either direction"
	p := qosProfile()
	p.Name = "alias"
	p.SlotIDs = []int{0, 1, 2}
	p.NoSelfTakeover = true
	p.Versions = []byte{5, 5, 4}
	p.Topics = []string{"a", "a/b", "b", "b/c"}
	p.Filters = []string{"a", "a/b", "a/#", "#", "b/#"}
	p.PubQoS = []byte{0, 1, 2}
	p.SubQoS = []byte{0, 1, 2}
	p.TAM = []uint16{0, 1, 2, 3}
	p.RecvMax = []uint16{0, 0, 2}
	p.MPS = []uint32{0, 0, 0, 40}
	p.AliasPct = 55
	p.SrvTAM = []int{-1, 2, 0}
	p.CleanPct = 30
	p.Expiry = []uint32{300, 0}
	p.Size = []int{0, 0, 30}
	p.W = map[string]int{"connect": 5, "subscribe": 5, "publish": 14, "disconnect": 3, "hold": 2, "ackone": 2, "ping": 1}
	h := &histRun{Prop: "C24", Profile: p, N: c.N(400, 10000), Label: 24, Nontrivial: []string{"inbound_alias_bound", "outbound_alias_seen"},
		Rules: []string{"C24/", "C03/unentitled-delivery", "C03/topic-changed"}}
	h.run(c)
	c.MinEvents["inbound_alias_bound"] = 100
	c.MinEvents["inbound_alias_resolved"] = 50
	c.MinEvents["outbound_alias_seen"] = 200
	c24ManyTopics(c)
}

// c24ManyTopics: a client that allows the full alias range (Topic Alias Maximum 65535) receives more distinct topics
// than there are aliases, then early topics again. The receiver keeps the alias table the packets imply; every PUBLISH
// must resolve to the topic named in its payload (the history profile uses maxima 0-3 only).
func c24ManyTopics(c *vk.Ctx) {
	for _, tam := range []uint32{65535, 7} {
		b := eng.NewBroker(eng.Options{Inline: true})
		sub, rx := dConnect(b, 5, "many", true, rc.Props{{ID: rc.PTopicAliasMax, Num: tam}}, nil)
		if ca := hasType(rx, rc.CONNACK); ca == nil || ca.Reason != 0 {
			c.Inconclusive("C24 many-topics probe: CONNECT refused")
			b.Shutdown()
			continue
		}
		sub.send(subscribePkt(1, "big/#", 0))
		n := int(tam) + 60
		table := map[uint32]string{}
		bad := 0
		check := func() {
			for _, rp := range sub.Drain() {
				if rp.P.Type != rc.PUBLISH {
					continue
				}
				c.Count("many_topics_publishes_checked", 1)
				topic := rp.P.Topic
				if ap, ok := rp.P.Props.Get(rc.PTopicAlias); ok {
					if ap.Num == 0 || ap.Num > tam {
						c.Violate("C24/alias-out-of-range", map[string]string{"tam": fmt.Sprint(tam)}, fmt.Sprintf("PUBLISH uses topic alias %d, the client's Topic Alias Maximum is %d", ap.Num, tam), nil)
						bad++
					}
					if topic != "" {
						table[ap.Num] = topic
					} else {
						topic = table[ap.Num]
					}
				}
				if want := string(rp.P.Payload); topic != want && bad < 3 {
					bad++
					c.Violate("C24/unbound-alias", map[string]string{"mps_limited": "false", "many_topics": "true"},
						fmt.Sprintf("Topic Alias Maximum %d, %d distinct topics delivered: a message published on %q reaches the receiver as %q (alias %v, topic field %q)", tam, n, want, topic, rp.P.Props.All(rc.PTopicAlias), rp.P.Topic),
						map[string]any{"topic_alias_maximum": tam, "distinct_topics": n})
				}
			}
		}
		for i := 0; i < n; i++ {
			t := fmt.Sprintf("big/t%d", i)
			_ = b.S.Publish(t, []byte(t), false, 0)
			if i%2000 == 1999 {
				b.Quiesce(20 * time.Second)
				check()
			}
		}
		for i := 0; i < 20; i++ {
			t := fmt.Sprintf("big/t%d", i)
			_ = b.S.Publish(t, []byte(t), false, 0)
		}
		b.Quiesce(20 * time.Second)
		check()
		c.Eval(vk.Hash("c24many", tam), true)
		b.Shutdown()
	}
	c.MinEvents["many_topics_publishes_checked"] = 60000
}

func checkC25(c *vk.Ctx) {
	c.Rule = "random histories with publisher Message Expiry Interval {absent,150,250} x server maximum {off,250,default} x v4/v5 publishers over the routes live / retained / deferred behind Receive Maximum / queued for an offline session, with housekeeping ticks (virtual time, multiples of 100 s) on both sides of each expiry: " +
		"after housekeeping has run later than publish time + effective interval (smaller non-zero of publisher interval and server maximum) no first transmission of that message happens (new subscription, released queue, reconnect); a delivered Message Expiry Interval never exceeds the effective interval. nontrivial = histories in which >=1 message passed its expiry before a tick"
	c.Assumptions = []string{"restart route is decided by C20/C21's store engine", "remaining time is checked against the effective interval at publish (virtual time is not visible to WritePacket's real clock beyond the aged stamps)"}
	p := qosProfile()
	p.Name = "msgexpiry"
	p.SlotIDs = []int{0, 1, 2}
	p.NoSelfTakeover = true
	p.Versions = []byte{5, 5, 4}
	p.MsgExp = []uint32{0, 150, 250}
	p.MaxMsgExp = []int64{-1, 250, 0}
	p.RetainPct = 35
	p.PubQoS = []byte{0, 1, 2}
	p.SubQoS = []byte{1, 2}
	p.RecvMax = nil // the flow-control route is a directed scenario below (sessions with a deferral are wedged by a recorded finding)
	p.TickDelta = []int64{100, 200}
	p.CleanPct = 25
	p.Expiry = []uint32{0xFFFFFFFF}
	p.HowDisc = []string{"drop", "normal"}
	p.W = map[string]int{"connect": 5, "subscribe": 5, "publish": 10, "disconnect": 3, "tick": 5, "hold": 2, "ackone": 2}
	h := &histRun{Prop: "C25", Profile: p, N: c.N(400, 8000), Label: 25, Nontrivial: []string{"inflight_expired", "retained_expired_model"},
		Rules: []string{"C25/", "C03/unentitled-delivery", "C05/retained-not-sent", "C09/not-resent-after-reconnect"}}
	h.run(c)
	c.MinEvents["msg_expiry_observed"] = 300
	// route "deferred behind Receive Maximum": the second message is held back, expires, then quota is released
	sub := []rc.SubFilter{{Filter: "t", Options: 1}}
	for _, maxExp := range []int64{0, 250} {
		h.directed(c, "deferred-then-expired", &hist.Config{MaxQoS: 2, RetainAvailable: true, MaxMsgExpiry: maxExp}, []string{"s", "p"}, []hist.Op{
			{Kind: "connect", C: 0, Ver: 5, Clean: true, RecvMax: 1},
			{Kind: "subscribe", C: 0, Filters: sub},
			{Kind: "connect", C: 1, Ver: 5, Clean: true},
			{Kind: "hold", C: 0, Hold: true},
			{Kind: "publish", C: 1, Topic: "t", QoS: 1}, // long-lived, stays unacknowledged and holds the quota
			{Kind: "publish", C: 1, Topic: "t", QoS: 1, MsgExp: 150},
			{Kind: "tick", Delta: 200},
			{Kind: "tick", Delta: 100},
			{Kind: "hold", C: 0, Hold: false},
			{Kind: "ping", C: 0, N: 2},
		})
	}
}

func checkC34(c *vk.Ctx) {
	c.Rule = "random histories with ClientNetWriteBufferSize 16-256, subscribers with Maximum Packet Size 30-80 (so some queued publishes are refused after earlier ones were buffered), payloads of 0-300 bytes, injected write failures, direct acknowledgements interleaved with queued publishes (clients publish QoS 1/2 to topics they subscribe to): " +
		"at every quiescent point the concatenation of the byte slices reported through OnPacketSent for a connection equals the bytes that connection received, in order, and the client's output buffer is empty; every entitled delivery that is absent is explained by an OnPublishDropped event, an InflightDropped increment or a packet-too-large refusal. nontrivial = histories with >=1 flush comparison on a connection that received >=2 packets"
	p := deliveryProfile()
	p.Name = "flush"
	p.Versions = []byte{5, 5, 4}
	p.MPS = []uint32{0, 0, 30, 50, 80}
	p.Size = []int{0, 0, 10, 40, 120, 300}
	p.PubQoS = []byte{0, 1, 2}
	p.NLPct = 0
	p.RetainPct = 15
	p.W = map[string]int{"connect": 3, "subscribe": 5, "publish": 14, "disconnect": 1, "ping": 1, "failwrite": 1}
	h := &histRun{Prop: "C34", Profile: p, N: c.N(300, 8000), Label: 34, Nontrivial: []string{"flush_points"}, Opt: &hist.SimOptions{CheckFlush: true},
		Mutate: func(r *vk.Rand, cfg *hist.Config, ops []hist.Op) []hist.Op {
			cfg.WriteBuf = vk.Pick(r, []int{16, 32, 64, 256, 2048})
			cfg.WritesPending = vk.Pick(r, []int32{1, 2, 8, 1024})
			return ops
		}}
	h.run(c)
	c.MinEvents["flush_points"] = 2000
}

func checkC38(c *vk.Ctx) {
	c.Rule = "random histories with takeovers, session expiries (ticks), unsubscribes of filters the client never subscribed to, shared subscriptions, clean and unclean disconnects with messages in flight, in-flight expiry and retained publishes/deletions: after every step (quiescent) the reported clients connected / subscriptions / retained / in-flight counters are compared with numbers obtained by walking the real structures (verif probe) and with the harness's own count of open established connections; none may be negative; a schedule probe holds a connection handler inside its session clean-up (at the first in-flight record it drops) while housekeeping expires the remaining records of that client, then reconciles the in-flight counter. nontrivial = histories with >=1 comparison point"
	p := sessionProfile()
	p.Name = "stats"
	p.TakeoverSafe = true
	p.Filters = []string{"a", "a/b", "a/#", "#", "b", "$share/g/a/#", "$share/g/b"}
	p.RetainPct = 30
	p.EmptyPct = 30
	p.TickDelta = []int64{100, 200}
	p.Expiry = []uint32{0, 150, 350}
	p.MsgExp = []uint32{0, 150}
	p.W = map[string]int{"connect": 7, "subscribe": 6, "unsubscribe": 4, "publish": 10, "disconnect": 4, "hold": 2, "tick": 3, "ackone": 1}
	h := &histRun{Prop: "C38", Profile: p, N: c.N(300, 8000), Label: 38, Nontrivial: []string{"stats_points"}, Opt: &hist.SimOptions{CheckStats: true}}
	h.run(c)
	c.MinEvents["stats_points"] = 3000
	c38FailedConnects(c)
	c38OverlappingRemovals(c)
}

// c38OverlappingRemovals: in-flight records of one client removed by two actors at once. The handler of a connection
// whose session ends with it is held inside its clean-up (at the OnQosDropped hook of the first record it drops) while
// housekeeping expires the client's remaining records; then the handler finishes. Each record must be counted out once.
func c38OverlappingRemovals(c *vk.Ctx) {
	for _, ver := range []byte{4, 5} {
		for _, n := range []int{2, 4, 7} {
			b := eng.NewBroker(eng.Options{})
			ctl := b.EnableControl()
			sub, _ := dConnect(b, ver, "ovl", true, nil, nil) // clean session / expiry 0: ends with the connection
			sub.send(subscribePkt(1, "ovl/t", 1))
			pub, _ := dConnect(b, 4, "ovlpub", true, nil, nil)
			for i := 0; i < n; i++ {
				pub.send(publishPkt("ovl/t", 1, uint16(40+i), fmt.Sprintf("v%d", i), false))
			}
			sub.wait() // received, never acknowledged
			if got := b.S.VerifActualCounts().Inflight; got != n {
				c.Inconclusive(fmt.Sprintf("C38 overlapping removals: %d in-flight records before the teardown, expected %d", got, n))
				b.DisableControl()
				b.Shutdown()
				continue
			}
			ctl.ParkAt("hook.OnQosDropped", "ovl")
			sub.MC.CloseByClient()
			if !ctl.WaitParked("hook.OnQosDropped", "ovl", 1, 5*time.Second) {
				c.Inconclusive("C38 overlapping removals: the clean-up did not reach its first dropped record")
				b.DisableControl()
				b.Shutdown()
				continue
			}
			b.S.VerifClearExpiredInflights(time.Now().Unix() + 1000000) // far beyond the server's maximum message expiry
			ctl.Release("hook.OnQosDropped", "ovl")
			b.Quiesce(10 * time.Second)
			rep, act := b.S.Info.Clone().Inflight, int64(b.S.VerifActualCounts().Inflight)
			c.Count("overlapping_removal_cases", 1)
			if rep != act || rep < 0 {
				c.Violate("C38/counter-mismatch", map[string]string{"counter": "inflight", "after_op": "removals-overlapping-a-session-teardown", "negative": fmt.Sprint(rep < 0), "drift": fmt.Sprint(rep > act)},
					fmt.Sprintf("MQTT %d, %d unacknowledged messages: housekeeping expired the client's in-flight records while its connection handler was inside its own clean-up; afterwards $SYS inflight reports %d, actual %d", ver, n, rep, act),
					map[string]any{"version": ver, "inflight": n, "points": ctl.Trace()})
			}
			c.Eval(vk.Hash("c38ovl", ver, n), true)
			b.DisableControl()
			b.Shutdown()
		}
	}
	c.MinEvents["overlapping_removal_cases"] = 4
}

// c38FailedConnects: connections that are counted but never get their CONNACK (the write fails, the CONNACK exceeds the
// client's Maximum Packet Size, the peer is gone) must leave the connected-clients counter as they found it. The
// history engine's connects always succeed or are refused before they are counted, so this is driven directly.
func c38FailedConnects(c *vk.Ctx) {
	for _, ver := range []byte{4, 5} {
		for _, order := range [][]string{{"write-fails", "too-large", "peer-gone"}, {"peer-gone", "write-fails", "too-large", "write-fails"}, {"too-large", "too-large"}} {
			b := eng.NewBroker(eng.Options{})
			a, rx := dConnect(b, ver, "stay", true, nil, nil)
			if ca := hasType(rx, rc.CONNACK); ca == nil || ca.Reason != 0 {
				c.Inconclusive("C38 failed-connect probe: reference client refused")
				b.Shutdown()
				continue
			}
			open := int64(1)
			check := func(after string) {
				b.Quiesce(10 * time.Second)
				got := b.S.Info.Clone().ClientsConnected
				c.Count("failed_connect_points", 1)
				if got != open {
					c.Violate("C38/counter-mismatch", map[string]string{"counter": "clients_connected", "after_op": "failed-connect:" + after, "negative": fmt.Sprint(got < 0), "drift": fmt.Sprint(got > open)},
						fmt.Sprintf("MQTT %d: after a CONNECT that ended without CONNACK (%s) the connected-clients counter reports %d, %d connection(s) are open (sequence %v)", ver, after, got, open, order),
						map[string]any{"version": ver, "sequence": order})
				}
			}
			for i, kind := range order {
				cl := b.Attach()
				cl.Version = ver
				p := &rc.Packet{Type: rc.CONNECT, Version: ver, ProtoLevel: ver, ProtoName: "MQTT", ClientID: fmt.Sprintf("fc%d", i), ConnectFlags: 2}
				switch kind {
				case "write-fails":
					cl.MC.FailWriteAt(1)
				case "too-large":
					if ver == 5 {
						p.Props = rc.Props{{ID: rc.PMaxPacketSize, Num: 2}}
					} else {
						cl.MC.FailWriteAt(1)
					}
				}
				cl.Send(p, rc.FormAuto)
				if kind == "peer-gone" {
					cl.MC.CloseByClient()
				}
				check(kind)
				cl.MC.CloseByClient()
				check(kind + ", connection closed")
			}
			a.send(&rc.Packet{Type: rc.DISCONNECT})
			open = 0
			check("reference client disconnected")
			c.Eval(vk.Hash("c38fc", ver, order), true)
			b.Shutdown()
		}
	}
}

func checkC40(c *vk.Ctx) {
	c.Rule = "random histories mixing Server.Subscribe / Server.Unsubscribe / Server.Publish (inline client) with regular v4/v5 clients over filters {a, a/b, a/+, a/#, #, +/b} and topics depth<=3, several inline ids per filter, retained messages: an inline publish reaches every matching client subscription (QoS = min(requested, subscription, server max)) and every matching inline subscription exactly once, including filter/# for the parent level; " +
		"Server.Subscribe first hands over the matching retained messages; after Server.Unsubscribe(filter,id) that id is not invoked any more and other ids on the filter still are. nontrivial = histories with >=1 inline handler invocation expected"
	p := deliveryProfile()
	p.Name = "inline"
	p.NLPct = 0
	p.RetainPct = 25
	p.W = map[string]int{"connect": 2, "subscribe": 4, "unsubscribe": 1, "publish": 8, "disconnect": 1}
	filters := []string{"a", "a/b", "a/+", "a/#", "#", "+/b", "b/#"}
	h := &histRun{Prop: "C40", Profile: p, N: c.N(300, 8000), Label: 40, Nontrivial: []string{"inline_deliveries_expected"},
		Rules: []string{"C40/", "C03/missing-delivery", "C03/unentitled-delivery", "C04/delivered-qos"},
		Mutate: func(r *vk.Rand, cfg *hist.Config, ops []hist.Op) []hist.Op {
			cfg.Inline = true
			// weave inline operations into the history
			var out []hist.Op
			type isub struct {
				f  string
				id int
			}
			var subs []isub
			for _, op := range ops {
				out = append(out, op)
				switch r.Intn(6) {
				case 0, 1:
					s := isub{vk.Pick(r, filters), r.Range(1, 4)}
					// one filter per inline id (the gathered map is keyed by identifier)
					dup := false
					for _, x := range subs {
						if x.id == s.id {
							dup = true
						}
					}
					if !dup {
						subs = append(subs, s)
						out = append(out, hist.Op{Kind: "inline-subscribe", SubID: s.id, Filters: []rc.SubFilter{{Filter: s.f}}})
					}
				case 2:
					if len(subs) > 0 {
						k := r.Intn(len(subs))
						out = append(out, hist.Op{Kind: "inline-unsubscribe", SubID: subs[k].id, Filters: []rc.SubFilter{{Filter: subs[k].f}}})
						subs = append(subs[:k], subs[k+1:]...)
					}
				case 3, 4:
					out = append(out, hist.Op{Kind: "inline-publish", Topic: vk.Pick(r, baseTopics), QoS: byte(r.Intn(3)), Retain: r.Chance(20)})
				}
			}
			return out
		}}
	h.run(c)
	c.MinEvents["inline_deliveries_expected"] = 300
	c.MinEvents["inline_publishes"] = 300
}
