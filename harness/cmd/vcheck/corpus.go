package main

import (
	"github.com/mochi-mqtt/server/v2/packets"
	"sort"

	rc "verif/harness/refcodec"
	"verif/harness/vk"
)

// A decoder input: protocol version in force, first header byte and body bytes.
type decInput struct {
	Ver  byte
	Hdr  byte
	Body []byte
	Src  string // seed | catalogue | trunc | tamper | random
}

var allVersions = []byte{3, 4, 5}

// corpusSeeds: well-formed packets from the reference generator for every type x version,
// plus the raw bytes of the broker's own catalogue (used as inputs only).
func corpusSeeds(seed int64, perType int) []decInput {
	var out []decInput
	for t := byte(1); t <= 15; t++ {
		for _, v := range allVersions {
			if t == rc.AUTH && v != 5 {
				continue
			}
			for k := 0; k < perType; k++ {
				r := vk.Sub(seed, 2700, uint64(t), uint64(v), uint64(k))
				p := rc.GenPacket(r, t, v)
				// keep seeds small enough to mutate densely
				if len(p.Payload) > 300 {
					p.Payload = p.Payload[:r.Range(0, 40)]
				}
				b := rc.Encode(p, rc.Form(r.Intn(3)))
				if len(b) > 2000 {
					continue
				}
				hdr, body, err := splitWire(b)
				if err != nil {
					continue
				}
				out = append(out, decInput{Ver: p.Version, Hdr: hdr, Body: body, Src: "seed"})
			}
		}
	}
	types := make([]int, 0, len(packets.TPacketData))
	for t := range packets.TPacketData {
		types = append(types, int(t))
	}
	sort.Ints(types) // map order would make the seed list, and with it every PRNG-derived mutation, differ from run to run
	for _, t := range types {
		for _, c := range packets.TPacketData[byte(t)] {
			if len(c.RawBytes) < 2 {
				continue
			}
			_, n, err := rc.DecodeVBI(c.RawBytes[1:])
			if err != nil || 1+n > len(c.RawBytes) {
				continue
			}
			body := append([]byte{}, c.RawBytes[1+n:]...)
			if len(body) > 2000 {
				continue
			}
			vers := allVersions
			if c.Packet != nil && c.Packet.ProtocolVersion != 0 {
				vers = []byte{c.Packet.ProtocolVersion}
			}
			for _, v := range vers {
				out = append(out, decInput{Ver: v, Hdr: c.RawBytes[0], Body: body, Src: "catalogue"})
			}
		}
	}
	return out
}

// systematic mutations of one seed: truncation at every offset; every byte set to
// {0, 0xff, +1, -1}; every 16-bit window set to 0xffff.
func systematicMutations(s decInput, emit func(decInput)) {
	for i := 0; i < len(s.Body); i++ {
		emit(decInput{Ver: s.Ver, Hdr: s.Hdr, Body: append([]byte{}, s.Body[:i]...), Src: "trunc"})
	}
	for i := 0; i < len(s.Body); i++ {
		for _, nv := range []byte{0, 0xff, s.Body[i] + 1, s.Body[i] - 1} {
			if nv == s.Body[i] {
				continue
			}
			b := append([]byte{}, s.Body...)
			b[i] = nv
			emit(decInput{Ver: s.Ver, Hdr: s.Hdr, Body: b, Src: "tamper"})
		}
		if i+1 < len(s.Body) {
			b := append([]byte{}, s.Body...)
			b[i], b[i+1] = 0xff, 0xff
			emit(decInput{Ver: s.Ver, Hdr: s.Hdr, Body: b, Src: "tamper"})
		}
	}
}

// randomMutation derives one PRNG mutation of a seed (bit flips, splices, inserts, deletes,
// version and header changes).
func randomMutation(r *vk.Rand, seeds []decInput) decInput {
	s := vk.Pick(r, seeds)
	b := append([]byte{}, s.Body...)
	in := decInput{Ver: s.Ver, Hdr: s.Hdr, Src: "random"}
	n := r.Range(1, 4)
	for k := 0; k < n; k++ {
		switch r.Intn(8) {
		case 0, 1:
			if len(b) > 0 {
				b[r.Intn(len(b))] ^= 1 << uint(r.Intn(8))
			}
		case 2:
			if len(b) > 0 {
				b[r.Intn(len(b))] = byte(r.U64())
			}
		case 3:
			pos := r.Intn(len(b) + 1)
			ins := r.Bytes(r.Range(1, 4))
			b = append(b[:pos:pos], append(ins, b[pos:]...)...)
		case 4:
			if len(b) > 1 {
				pos := r.Intn(len(b))
				l := r.Range(1, 3)
				if pos+l > len(b) {
					l = len(b) - pos
				}
				b = append(b[:pos:pos], b[pos+l:]...)
			}
		case 5:
			o := vk.Pick(r, seeds)
			if len(o.Body) > 0 {
				a := r.Intn(len(o.Body))
				pos := r.Intn(len(b) + 1)
				b = append(b[:pos:pos], o.Body[a:]...)
			}
		case 6:
			in.Ver = vk.Pick(r, allVersions)
		case 7:
			if r.Chance(50) {
				in.Hdr = byte(r.U64())
			} else {
				in.Hdr = vk.Pick(r, seeds).Hdr
			}
		}
	}
	if len(b) > 4000 {
		b = b[:4000]
	}
	in.Body = b
	return in
}
