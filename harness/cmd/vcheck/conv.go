package main

import (
	"bytes"
	"fmt"
	"reflect"
	"sort"

	"github.com/mochi-mqtt/server/v2/packets"

	rc "verif/harness/refcodec"
)

// ---- neutral description <-> mochi packets.Packet

func propsToMochi(ps rc.Props) packets.Properties {
	var m packets.Properties
	for _, p := range ps {
		switch p.ID {
		case rc.PPayloadFormat:
			m.PayloadFormat, m.PayloadFormatFlag = byte(p.Num), true
		case rc.PMessageExpiry:
			m.MessageExpiryInterval = p.Num
		case rc.PContentType:
			m.ContentType = p.Str
		case rc.PResponseTopic:
			m.ResponseTopic = p.Str
		case rc.PCorrelationData:
			m.CorrelationData = p.Bin
		case rc.PSubscriptionID:
			m.SubscriptionIdentifier = append(m.SubscriptionIdentifier, int(p.Num))
		case rc.PSessionExpiry:
			m.SessionExpiryInterval, m.SessionExpiryIntervalFlag = p.Num, true
		case rc.PAssignedClient:
			m.AssignedClientID = p.Str
		case rc.PServerKeepAlive:
			m.ServerKeepAlive, m.ServerKeepAliveFlag = uint16(p.Num), true
		case rc.PAuthMethod:
			m.AuthenticationMethod = p.Str
		case rc.PAuthData:
			m.AuthenticationData = p.Bin
		case rc.PReqProblemInfo:
			m.RequestProblemInfo, m.RequestProblemInfoFlag = byte(p.Num), true
		case rc.PWillDelay:
			m.WillDelayInterval = p.Num
		case rc.PReqResponseInfo:
			m.RequestResponseInfo = byte(p.Num)
		case rc.PResponseInfo:
			m.ResponseInfo = p.Str
		case rc.PServerReference:
			m.ServerReference = p.Str
		case rc.PReasonString:
			m.ReasonString = p.Str
		case rc.PReceiveMaximum:
			m.ReceiveMaximum = uint16(p.Num)
		case rc.PTopicAliasMax:
			m.TopicAliasMaximum = uint16(p.Num)
		case rc.PTopicAlias:
			m.TopicAlias, m.TopicAliasFlag = uint16(p.Num), true
		case rc.PMaximumQoS:
			m.MaximumQos, m.MaximumQosFlag = byte(p.Num), true
		case rc.PRetainAvailable:
			m.RetainAvailable, m.RetainAvailableFlag = byte(p.Num), true
		case rc.PUserProperty:
			m.User = append(m.User, packets.UserProperty{Key: p.Str, Val: p.Val})
		case rc.PMaxPacketSize:
			m.MaximumPacketSize = p.Num
		case rc.PWildcardSubAv:
			m.WildcardSubAvailable, m.WildcardSubAvailableFlag = byte(p.Num), true
		case rc.PSubIDAvailable:
			m.SubIDAvailable, m.SubIDAvailableFlag = byte(p.Num), true
		case rc.PSharedSubAv:
			m.SharedSubAvailable, m.SharedSubAvailableFlag = byte(p.Num), true
		}
	}
	return m
}

func propsFromMochi(m packets.Properties) rc.Props {
	var ps rc.Props
	if m.PayloadFormatFlag {
		ps = append(ps, rc.Prop{ID: rc.PPayloadFormat, Num: uint32(m.PayloadFormat)})
	}
	if m.MessageExpiryInterval > 0 {
		ps = append(ps, rc.Prop{ID: rc.PMessageExpiry, Num: m.MessageExpiryInterval})
	}
	if m.ContentType != "" {
		ps = append(ps, rc.Prop{ID: rc.PContentType, Str: m.ContentType})
	}
	if m.ResponseTopic != "" {
		ps = append(ps, rc.Prop{ID: rc.PResponseTopic, Str: m.ResponseTopic})
	}
	if len(m.CorrelationData) > 0 {
		ps = append(ps, rc.Prop{ID: rc.PCorrelationData, Bin: m.CorrelationData})
	}
	for _, v := range m.SubscriptionIdentifier {
		ps = append(ps, rc.Prop{ID: rc.PSubscriptionID, Num: uint32(v)})
	}
	if m.SessionExpiryIntervalFlag {
		ps = append(ps, rc.Prop{ID: rc.PSessionExpiry, Num: m.SessionExpiryInterval})
	}
	if m.AssignedClientID != "" {
		ps = append(ps, rc.Prop{ID: rc.PAssignedClient, Str: m.AssignedClientID})
	}
	if m.ServerKeepAliveFlag {
		ps = append(ps, rc.Prop{ID: rc.PServerKeepAlive, Num: uint32(m.ServerKeepAlive)})
	}
	if m.AuthenticationMethod != "" {
		ps = append(ps, rc.Prop{ID: rc.PAuthMethod, Str: m.AuthenticationMethod})
	}
	if len(m.AuthenticationData) > 0 {
		ps = append(ps, rc.Prop{ID: rc.PAuthData, Bin: m.AuthenticationData})
	}
	if m.RequestProblemInfoFlag {
		ps = append(ps, rc.Prop{ID: rc.PReqProblemInfo, Num: uint32(m.RequestProblemInfo)})
	}
	if m.WillDelayInterval > 0 {
		ps = append(ps, rc.Prop{ID: rc.PWillDelay, Num: m.WillDelayInterval})
	}
	if m.RequestResponseInfo > 0 {
		ps = append(ps, rc.Prop{ID: rc.PReqResponseInfo, Num: uint32(m.RequestResponseInfo)})
	}
	if m.ResponseInfo != "" {
		ps = append(ps, rc.Prop{ID: rc.PResponseInfo, Str: m.ResponseInfo})
	}
	if m.ServerReference != "" {
		ps = append(ps, rc.Prop{ID: rc.PServerReference, Str: m.ServerReference})
	}
	if m.ReasonString != "" {
		ps = append(ps, rc.Prop{ID: rc.PReasonString, Str: m.ReasonString})
	}
	if m.ReceiveMaximum > 0 {
		ps = append(ps, rc.Prop{ID: rc.PReceiveMaximum, Num: uint32(m.ReceiveMaximum)})
	}
	if m.TopicAliasMaximum > 0 {
		ps = append(ps, rc.Prop{ID: rc.PTopicAliasMax, Num: uint32(m.TopicAliasMaximum)})
	}
	if m.TopicAliasFlag {
		ps = append(ps, rc.Prop{ID: rc.PTopicAlias, Num: uint32(m.TopicAlias)})
	}
	if m.MaximumQosFlag {
		ps = append(ps, rc.Prop{ID: rc.PMaximumQoS, Num: uint32(m.MaximumQos)})
	}
	if m.RetainAvailableFlag {
		ps = append(ps, rc.Prop{ID: rc.PRetainAvailable, Num: uint32(m.RetainAvailable)})
	}
	for _, u := range m.User {
		ps = append(ps, rc.Prop{ID: rc.PUserProperty, Str: u.Key, Val: u.Val})
	}
	if m.MaximumPacketSize > 0 {
		ps = append(ps, rc.Prop{ID: rc.PMaxPacketSize, Num: m.MaximumPacketSize})
	}
	if m.WildcardSubAvailableFlag {
		ps = append(ps, rc.Prop{ID: rc.PWildcardSubAv, Num: uint32(m.WildcardSubAvailable)})
	}
	if m.SubIDAvailableFlag {
		ps = append(ps, rc.Prop{ID: rc.PSubIDAvailable, Num: uint32(m.SubIDAvailable)})
	}
	if m.SharedSubAvailableFlag {
		ps = append(ps, rc.Prop{ID: rc.PSharedSubAv, Num: uint32(m.SharedSubAvailable)})
	}
	return ps
}

// toMochi builds the broker's packet value from the neutral description.
func toMochi(p *rc.Packet) packets.Packet {
	pk := packets.Packet{ProtocolVersion: p.Version}
	pk.FixedHeader = packets.FixedHeader{Type: p.Type, Qos: p.QoS, Dup: p.Dup, Retain: p.Retain}
	if p.Type == rc.PUBREL || p.Type == rc.SUBSCRIBE || p.Type == rc.UNSUBSCRIBE {
		pk.FixedHeader.Qos = 1
	}
	pk.Mods.AllowResponseInfo = true
	pk.Properties = propsToMochi(p.Props)
	pk.PacketID = p.PacketID
	pk.ReasonCode = p.Reason
	switch p.Type {
	case rc.CONNECT:
		pk.ProtocolVersion = p.ProtoLevel
		pk.Connect = packets.ConnectParams{
			ProtocolName: []byte(p.ProtoName), Clean: p.CleanStart(), Keepalive: p.KeepAlive, ClientIdentifier: p.ClientID,
			WillFlag: p.WillFlag(), WillQos: p.WillQoS(), WillRetain: p.WillRetain(), WillTopic: p.WillTopic, WillPayload: p.WillPayload,
			UsernameFlag: p.UsernameFlag(), Username: p.Username, PasswordFlag: p.PasswordFlag(), Password: p.Password,
			WillProperties: propsToMochi(p.WillProps),
		}
	case rc.CONNACK:
		pk.SessionPresent = p.SessionPresent
	case rc.PUBLISH:
		pk.TopicName = p.Topic
		pk.Payload = p.Payload
	case rc.SUBSCRIBE, rc.UNSUBSCRIBE:
		for _, f := range p.Filters {
			s := packets.Subscription{Filter: f.Filter, Qos: f.QoS()}
			if p.Version == 5 && p.Type == rc.SUBSCRIBE {
				s.NoLocal, s.RetainAsPublished, s.RetainHandling = f.NoLocal(), f.RAP(), f.RH()
				if id, ok := p.Props.Get(rc.PSubscriptionID); ok {
					s.Identifier = int(id.Num)
				}
			}
			pk.Filters = append(pk.Filters, s)
		}
	case rc.SUBACK, rc.UNSUBACK:
		pk.ReasonCodes = p.ReasonCodes
	}
	return pk
}

// fromMochi converts a decoded broker packet back to the neutral description.
func fromMochi(pk packets.Packet) *rc.Packet {
	p := &rc.Packet{Type: pk.FixedHeader.Type, Version: pk.ProtocolVersion, PacketID: pk.PacketID, Reason: pk.ReasonCode}
	p.Props = propsFromMochi(pk.Properties)
	switch p.Type {
	case rc.CONNECT:
		p.ProtoLevel = pk.ProtocolVersion
		p.ProtoName = string(pk.Connect.ProtocolName)
		p.KeepAlive = pk.Connect.Keepalive
		p.ClientID = pk.Connect.ClientIdentifier
		var f byte
		if pk.Connect.Clean {
			f |= 2
		}
		if pk.Connect.WillFlag {
			f |= 4
		}
		f |= pk.Connect.WillQos << 3
		if pk.Connect.WillRetain {
			f |= 0x20
		}
		if pk.Connect.PasswordFlag {
			f |= 0x40
		}
		if pk.Connect.UsernameFlag {
			f |= 0x80
		}
		f |= pk.ReservedBit & 1
		p.ConnectFlags = f
		p.WillTopic, p.WillPayload = pk.Connect.WillTopic, pk.Connect.WillPayload
		p.Username, p.Password = pk.Connect.Username, pk.Connect.Password
		p.WillProps = propsFromMochi(pk.Connect.WillProperties)
	case rc.CONNACK:
		p.SessionPresent = pk.SessionPresent
	case rc.PUBLISH:
		p.QoS, p.Dup, p.Retain = pk.FixedHeader.Qos, pk.FixedHeader.Dup, pk.FixedHeader.Retain
		p.Topic, p.Payload = pk.TopicName, pk.Payload
	case rc.SUBSCRIBE, rc.UNSUBSCRIBE:
		for _, s := range pk.Filters {
			o := s.Qos
			if s.NoLocal {
				o |= 4
			}
			if s.RetainAsPublished {
				o |= 8
			}
			o |= s.RetainHandling << 4
			if p.Type == rc.UNSUBSCRIBE {
				o = 0
			}
			p.Filters = append(p.Filters, rc.SubFilter{Filter: s.Filter, Options: o})
		}
	case rc.SUBACK, rc.UNSUBACK:
		p.ReasonCodes = pk.ReasonCodes
	}
	return p
}

// normalise brings a neutral packet to canonical form for comparison: properties in id order
// (user properties and subscription identifiers keep their relative order), properties whose
// value equals the absent default removed, empty slices unified with nil, wire-only fields cleared.
func normalise(p *rc.Packet) *rc.Packet {
	q := *p
	q.WireLen, q.HasProps, q.HasReason, q.Flags, q.AckFlags = 0, false, false, 0, 0
	q.Props = normProps(p.Props)
	q.WillProps = normProps(p.WillProps)
	if len(q.Payload) == 0 {
		q.Payload = nil
	}
	if len(q.WillPayload) == 0 {
		q.WillPayload = nil
	}
	if len(q.Username) == 0 {
		q.Username = nil
	}
	if len(q.Password) == 0 {
		q.Password = nil
	}
	if len(q.ReasonCodes) == 0 {
		q.ReasonCodes = nil
	}
	if len(q.Filters) == 0 {
		q.Filters = nil
	}
	if q.Type == rc.UNSUBSCRIBE {
		fs := make([]rc.SubFilter, len(q.Filters))
		for i, f := range q.Filters {
			fs[i] = rc.SubFilter{Filter: f.Filter}
		}
		q.Filters = fs
	}
	if q.Type != rc.CONNECT {
		q.ProtoLevel = 0
	}
	return &q
}

func normProps(ps rc.Props) rc.Props {
	var out rc.Props
	for _, p := range ps {
		switch p.ID {
		case rc.PMessageExpiry, rc.PWillDelay, rc.PTopicAliasMax, rc.PReqResponseInfo:
			if p.Num == 0 {
				continue // absent == default 0
			}
		}
		if p.ID == rc.PMaximumQoS && p.Num >= 2 {
			continue // Maximum QoS absent == 2 (no limit); values >= 2 carry no restriction
		}
		if p.ID == rc.PSubscriptionID && p.Num == 0 {
			continue // 0 is not a legal identifier; the broker's Subscription.Identifier 0 means none
		}
		if len(p.Bin) == 0 {
			p.Bin = nil
		}
		out = append(out, p)
	}
	sort.SliceStable(out, func(i, j int) bool { return out[i].ID < out[j].ID })
	if len(out) == 0 {
		return nil
	}
	return out
}

// diffPackets lists the fields in which two normalised packets differ.
func diffPackets(a, b *rc.Packet) []string {
	var d []string
	add := func(name string, x, y any) {
		if !reflect.DeepEqual(x, y) {
			d = append(d, fmt.Sprintf("%s: %v != %v", name, short(x), short(y)))
		}
	}
	add("type", a.Type, b.Type)
	add("dup", a.Dup, b.Dup)
	add("qos", a.QoS, b.QoS)
	add("retain", a.Retain, b.Retain)
	add("topic", a.Topic, b.Topic)
	if !bytes.Equal(a.Payload, b.Payload) {
		d = append(d, fmt.Sprintf("payload: len %d != len %d", len(a.Payload), len(b.Payload)))
	}
	add("packet_id", a.PacketID, b.PacketID)
	add("proto_name", a.ProtoName, b.ProtoName)
	add("proto_level", a.ProtoLevel, b.ProtoLevel)
	add("connect_flags", a.ConnectFlags, b.ConnectFlags)
	add("keepalive", a.KeepAlive, b.KeepAlive)
	add("client_id", a.ClientID, b.ClientID)
	add("will_topic", a.WillTopic, b.WillTopic)
	add("will_payload", a.WillPayload, b.WillPayload)
	add("username", a.Username, b.Username)
	add("password", a.Password, b.Password)
	add("session_present", a.SessionPresent, b.SessionPresent)
	add("reason", a.Reason, b.Reason)
	add("filters", a.Filters, b.Filters)
	add("reason_codes", a.ReasonCodes, b.ReasonCodes)
	d = append(d, diffProps("props", a.Props, b.Props)...)
	d = append(d, diffProps("will_props", a.WillProps, b.WillProps)...)
	return d
}

func diffProps(name string, a, b rc.Props) []string {
	if reflect.DeepEqual(a, b) {
		return nil
	}
	var d []string
	ids := map[byte]bool{}
	for _, p := range a {
		ids[p.ID] = true
	}
	for _, p := range b {
		ids[p.ID] = true
	}
	for id := range ids {
		if !reflect.DeepEqual(a.All(id), b.All(id)) {
			d = append(d, fmt.Sprintf("%s[0x%02x]: %v != %v", name, id, short(a.All(id)), short(b.All(id))))
		}
	}
	sort.Strings(d)
	return d
}

func short(v any) string {
	s := fmt.Sprintf("%v", v)
	if len(s) > 120 {
		return s[:120] + "…"
	}
	return s
}

// mochiDecode decodes a packet with the broker's codec the way Client.ReadPacket does
// (fixed header first, then the type's Decode on exactly the body bytes). Panics are
// converted to errors flagged with panicked=true.
func mochiDecode(version byte, hdr byte, body []byte) (pk packets.Packet, err error, panicked bool) {
	defer func() {
		if r := recover(); r != nil {
			err = fmt.Errorf("panic: %v", r)
			panicked = true
		}
	}()
	fh := packets.FixedHeader{}
	if e := fh.Decode(hdr); e != nil {
		return pk, e, false
	}
	fh.Remaining = len(body)
	pk.ProtocolVersion = version
	pk.FixedHeader = fh
	switch fh.Type {
	case packets.Connect:
		err = pk.ConnectDecode(body)
	case packets.Connack:
		err = pk.ConnackDecode(body)
	case packets.Publish:
		err = pk.PublishDecode(body)
	case packets.Puback:
		err = pk.PubackDecode(body)
	case packets.Pubrec:
		err = pk.PubrecDecode(body)
	case packets.Pubrel:
		err = pk.PubrelDecode(body)
	case packets.Pubcomp:
		err = pk.PubcompDecode(body)
	case packets.Subscribe:
		err = pk.SubscribeDecode(body)
	case packets.Suback:
		err = pk.SubackDecode(body)
	case packets.Unsubscribe:
		err = pk.UnsubscribeDecode(body)
	case packets.Unsuback:
		err = pk.UnsubackDecode(body)
	case packets.Pingreq:
		err = pk.PingreqDecode(body)
	case packets.Pingresp:
		err = pk.PingrespDecode(body)
	case packets.Disconnect:
		err = pk.DisconnectDecode(body)
	case packets.Auth:
		err = pk.AuthDecode(body)
	default:
		err = fmt.Errorf("invalid packet type %d", fh.Type)
	}
	return pk, err, false
}

// mochiEncode encodes with the broker's codec the way Client.WritePacket does.
func mochiEncode(pk packets.Packet) (out []byte, err error) {
	defer func() {
		if r := recover(); r != nil {
			err = fmt.Errorf("panic: %v", r)
		}
	}()
	buf := new(bytes.Buffer)
	switch pk.FixedHeader.Type {
	case packets.Connect:
		err = pk.ConnectEncode(buf)
	case packets.Connack:
		err = pk.ConnackEncode(buf)
	case packets.Publish:
		err = pk.PublishEncode(buf)
	case packets.Puback:
		err = pk.PubackEncode(buf)
	case packets.Pubrec:
		err = pk.PubrecEncode(buf)
	case packets.Pubrel:
		err = pk.PubrelEncode(buf)
	case packets.Pubcomp:
		err = pk.PubcompEncode(buf)
	case packets.Subscribe:
		err = pk.SubscribeEncode(buf)
	case packets.Suback:
		err = pk.SubackEncode(buf)
	case packets.Unsubscribe:
		err = pk.UnsubscribeEncode(buf)
	case packets.Unsuback:
		err = pk.UnsubackEncode(buf)
	case packets.Pingreq:
		err = pk.PingreqEncode(buf)
	case packets.Pingresp:
		err = pk.PingrespEncode(buf)
	case packets.Disconnect:
		err = pk.DisconnectEncode(buf)
	case packets.Auth:
		err = pk.AuthEncode(buf)
	default:
		err = fmt.Errorf("invalid packet type %d", pk.FixedHeader.Type)
	}
	return buf.Bytes(), err
}

// splitWire splits an encoded packet into header byte and body, checking that the remaining
// length equals the bytes that follow.
func splitWire(b []byte) (hdr byte, body []byte, err error) {
	if len(b) < 2 {
		return 0, nil, fmt.Errorf("short packet")
	}
	rl, n, e := rc.DecodeVBI(b[1:])
	if e != nil {
		return 0, nil, e
	}
	if len(b)-1-n != rl {
		return 0, nil, fmt.Errorf("remaining length %d but %d bytes follow", rl, len(b)-1-n)
	}
	return b[0], b[1+n:], nil
}
