package main

import (
	"encoding/json"
	"fmt"
	"os"
	"strconv"

	mqtt "github.com/mochi-mqtt/server/v2"

	"verif/harness/hist"
	"verif/harness/vk"
)

// child "c21dbg <seed> <history> <k> <backend>": re-runs one crash point with a trace and dumps the store afterwards.
func init() {
	children["c21dbg"] = func(args []string) {
		seed, _ := strconv.ParseInt(args[0], 10, 64)
		hi, _ := strconv.Atoi(args[1])
		k, _ := strconv.Atoi(args[2])
		backend := args[3]
		p := crashProfile()
		cfg, ids, ops := p.Generate(vk.Sub(seed, 21, uint64(hi)))
		if hi == 999 {
			cfg, ids, ops = c21Directed()
		}
		st, _ := newStoreSite(backend)
		defer st.destroy()
		var px *hist.CrashProxy
		o := &hist.SimOptions{Snapshots: true,
			StoreOpen: func() (mqtt.Hook, any) { return st.open() },
			WrapStore: func(hk mqtt.Hook) mqtt.Hook { px = &hist.CrashProxy{Hook: hk, Limit: k}; return px },
			StopWhen:  func() bool { return px != nil && px.Crashed() },
			Finish: func(s *hist.Sim) {
				fmt.Println("writes seen:", px.Log)
				pj, _ := json.Marshal(s.PrevSnap)
				cj, _ := json.Marshal(s.CurSnap)
				fmt.Println("PREV", string(pj))
				fmt.Println("CUR ", string(cj), "stopped at", s.StoppedAt)
				s.CrashRestart(p.Topics)
				h := s.Store.(storeHook)
				cl, _ := h.StoredClients()
				sb, _ := h.StoredSubscriptions()
				inf, _ := h.StoredInflightMessages()
				for _, x := range cl {
					b, _ := json.Marshal(x)
					fmt.Println("STORED client", string(b))
				}
				for _, x := range sb {
					fmt.Println("STORED sub", x.Client, x.Filter)
				}
				for _, x := range inf {
					fmt.Println("STORED inflight", x.Client, x.PacketID, string(x.Payload), x.FixedHeader.Type)
				}
				fmt.Println("index:", s.B.S.VerifIndexSubscriptions())
			}}
		res := hist.RunCase(cfg, ids, ops, true, o)
		for _, l := range res.Trace {
			fmt.Println(l)
		}
		for _, f := range res.Findings {
			fmt.Println("FINDING", f.Rule, f.Attrs, f.Detail)
		}
		_ = os.Stdout
	}
}
