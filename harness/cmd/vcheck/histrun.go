package main

import (
	"encoding/json"
	"fmt"
	"strings"
	"sync"
	"sync/atomic"

	"verif/harness/hist"
	"verif/harness/vk"
)

type histRun struct {
	Prop       string
	Rules      []string // rule prefixes decided by this check (default: Prop + "/")
	Profile    *hist.Profile
	N          int
	Label      uint64
	Nontrivial []string // a case is non-trivial if any of these model counters is > 0
	Opt        *hist.SimOptions
	Mutate     func(r *vk.Rand, cfg *hist.Config, ops []hist.Op) []hist.Op
	PerCase    func(i int) (*hist.SimOptions, func()) // per-case simulator options (e.g. a fresh store) and their cleanup
	Extra      map[string]any                         // added to every witness (e.g. the backend)
	Skip       func(f hist.Finding) bool              // findings decided (and recorded) by another property's check
}

func (h *histRun) owns(rule string) bool {
	rs := h.Rules
	if len(rs) == 0 {
		rs = []string{h.Prop + "/"}
	}
	for _, p := range rs {
		if strings.HasPrefix(rule, p) {
			return true
		}
	}
	return false
}

// run executes N generated histories in parallel and classifies the model's findings.
func (h *histRun) run(c *vk.Ctx) {
	var witnessed atomic.Int64
	n := h.N
	if c.Quick() {
		n *= vkEnvInt("VERIF_QSCALE", 5) // quick history counts in the check definitions are the base; a quick run costs 5-15 s
	}
	vk.Parallel(n, 0, func(i int) {
		r := vk.Sub(c.Seed, h.Label, uint64(i))
		cfg, ids, ops := h.Profile.Generate(r)
		if h.Mutate != nil {
			ops = h.Mutate(r, cfg, ops)
		}
		h.exec(c, i, cfg, ids, ops, &witnessed)
	})
}

func (h *histRun) exec(c *vk.Ctx, i int, cfg *hist.Config, ids []string, ops []hist.Op, witnessed *atomic.Int64) {
	runOnce := func() *hist.CaseResult {
		opt := h.Opt
		if h.PerCase != nil {
			o, cleanup := h.PerCase(i)
			defer cleanup()
			opt = o
		}
		return hist.RunCase(cfg, ids, ops, true, opt)
	}
	res := runOnce()
	if res.Incon != "" {
		res = runOnce() // retry once
		if res.Incon != "" {
			c.Inconclusive(h.Prop + " case " + res.Incon)
			return
		}
	}
	nontrivial := false
	for k, v := range res.Counts {
		c.Count(k, v)
	}
	for _, k := range h.Nontrivial {
		if res.Counts[k] > 0 {
			nontrivial = true
		}
	}
	ob, _ := json.Marshal(ops)
	c.Eval(vk.Hash(h.Label, string(ob), cfg), nontrivial)
	own := 0
	for _, f := range res.Findings {
		if !h.owns(f.Rule) || (h.Skip != nil && h.Skip(f)) {
			c.Count("foreign_rule/"+f.Rule, 1)
			continue
		}
		own++
		var witness any
		_, dupKey := traceKeys.LoadOrStore(fmt.Sprintf("%s|%s|%v", h.Prop, f.Rule, f.Attrs), true)
		if witnessed.Add(1) <= 6 || !dupKey {
			witness = map[string]any{"config": cfg, "slot_client_ids": ids, "ops": ops, "failing_step": f.Step, "trace": res.Trace, "profile": h.Profile.Name, "case": i}
		} else {
			witness = map[string]any{"config": cfg, "slot_client_ids": ids, "ops": ops, "failing_step": f.Step, "profile": h.Profile.Name, "case": i}
		}
		if wm, ok := witness.(map[string]any); ok {
			for k, v := range h.Extra {
				wm[k] = v
			}
		}
		c.Violate(f.Rule, f.Attrs, f.Detail, witness)
	}
	if i < 2 {
		n := len(ops)
		if n > 12 {
			n = 12
		}
		c.Sample(map[string]any{"profile": h.Profile.Name, "config": cfg, "slot_client_ids": ids, "first_ops": ops[:n], "total_ops": len(ops), "model_counters": res.Counts})
	}
}

// traceKeys: the first occurrence of every distinct (rule, attributes) keeps its full trace
var traceKeys sync.Map

// directed runs one hand-written history through the same engine and classification.
func (h *histRun) directed(c *vk.Ctx, name string, cfg *hist.Config, ids []string, ops []hist.Op) {
	var w atomic.Int64
	w.Store(100) // no trace re-run needed: ops are short and self-explanatory
	saved := h.Profile
	h.Profile = &hist.Profile{Name: "directed:" + name}
	h.exec(c, 1000000+int(vk.Hash(name)%1000), cfg, ids, ops, &w)
	h.Profile = saved
	c.Count("directed_probes", 1)
}
