package main

import (
	"fmt"
	"strings"
	"sync"

	mqtt "github.com/mochi-mqtt/server/v2"

	"verif/harness/refmatch"
	"verif/harness/vk"
)

func init() { register("C30", "exploration", checkC30) }

var c30Tokens = []string{"/", "+", "#", "$", "a", "share", "$share", "$SYS"}

// filterCause classifies why the reference rejects/accepts a string, used as cause attribute.
func filterCause(s string) string {
	switch {
	case s == "":
		return "empty"
	case s == "$share" || strings.HasPrefix(s, "$share/"):
		g, inner, _ := refmatch.SplitShare(s)
		switch {
		case s == "$share":
			return "share-bare"
		case g == "":
			return "share-empty-group"
		case strings.ContainsAny(g, "+#"):
			return "share-wild-group"
		case !strings.Contains(s[len("$share/"):], "/"):
			return "share-no-filter"
		case inner == "":
			return "share-empty-filter"
		}
		return "share-inner:" + plainCause(inner)
	}
	return plainCause(s)
}

func plainCause(s string) string {
	levels := strings.Split(s, "/")
	for i, l := range levels {
		if strings.Contains(l, "#") {
			if l != "#" {
				return "hash-partial-level"
			}
			if i != len(levels)-1 {
				return "hash-not-last"
			}
		}
		if strings.Contains(l, "+") && l != "+" {
			return "plus-partial-level"
		}
	}
	return "valid"
}

func checkC30(c *vk.Ctx) {
	maxTok := c.N(5, 7)
	c.Rule = fmt.Sprintf("all concatenations of <=%d tokens from %v (exhaustive) plus random UTF-8 strings: IsValidFilter(s,false)==refmatch.ValidFilter(s) and IsValidFilter(s,true)==refmatch.ValidPublishTopic(s); "+
		"plus end-to-end SUBSCRIBE of sampled strings (v4 and v5) through the real broker: invalid -> 0x8F/0x80 and no subscription created, valid -> granted. "+
		"nontrivial = every distinct string; distinct cause classes reported", maxTok, c30Tokens)
	c.Assumptions = []string{"refmatch.ValidFilter / ValidPublishTopic implement the rule exactly as stated in C30", "case variants of $share/$SYS are outside the statement and are not generated"}
	c.Exhaustive = true

	// enumerate strings (dedupe: different token sequences can give the same string)
	seen := map[string]struct{}{}
	var all []string
	var gen func(cur string, n int)
	gen = func(cur string, n int) {
		if _, ok := seen[cur]; !ok {
			seen[cur] = struct{}{}
			all = append(all, cur)
		} else if n > 0 {
			// already expanded from this string with >= remaining budget? not necessarily; keep expanding
		}
		if n == maxTok {
			return
		}
		for _, t := range c30Tokens {
			gen(cur+t, n+1)
		}
	}
	gen("", 0)

	r := vk.Sub(c.Seed, 30)
	nrand := c.N(100000, 400000)
	runes := []rune{'/', '+', '#', '$', 'a', 'b', 'é', '日', ' ', 'S', 'Y', 's', 'h', 'r', 'e', '0'}
	for i := 0; i < nrand; i++ {
		n := r.Range(0, 9)
		var sb strings.Builder
		if r.Chance(25) {
			sb.WriteString("$share/")
		}
		for k := 0; k < n; k++ {
			sb.WriteRune(vk.Pick(r, runes))
		}
		s := sb.String()
		low := strings.ToLower(s)
		// exclude case variants of the reserved prefixes (statement is silent on case)
		if (strings.HasPrefix(low, "$share") && !strings.HasPrefix(s, "$share")) || (strings.HasPrefix(low, "$sys") && !strings.HasPrefix(s, "$SYS")) {
			continue
		}
		if _, ok := seen[s]; !ok {
			seen[s] = struct{}{}
			all = append(all, s)
		}
	}

	var mu sync.Mutex
	causes := map[string]int{}
	vk.Parallel(16, 16, func(w int) {
		local := map[string]int{}
		var hs []uint64
		n := int64(0)
		for i := w; i < len(all); i += 16 {
			s := all[i]
			wantF := refmatch.ValidFilter(s)
			gotF := mqtt.IsValidFilter(s, false)
			cause := filterCause(s)
			local[cause]++
			if wantF != gotF {
				rule := "C30/accepts-invalid-filter"
				if wantF {
					rule = "C30/rejects-valid-filter"
				}
				c.Violate(rule, map[string]string{"cause": cause}, fmt.Sprintf("IsValidFilter(%q,false)=%v, reference=%v (%s)", s, gotF, wantF, cause), map[string]any{"filter": s})
			}
			wantP := refmatch.ValidPublishTopic(s)
			gotP := mqtt.IsValidFilter(s, true)
			if wantP != gotP {
				rule := "C30/accepts-invalid-topic"
				pc := "wildcard"
				if wantP {
					rule = "C30/rejects-valid-topic"
					pc = "no-wildcard-not-$SYS"
					if strings.HasPrefix(s, "$share") {
						pc = "share-shaped-topic"
					}
				} else if strings.HasPrefix(s, "$SYS") {
					pc = "$SYS"
				}
				c.Violate(rule, map[string]string{"cause": pc}, fmt.Sprintf("IsValidFilter(%q,true)=%v, reference=%v", s, gotP, wantP), map[string]any{"topic": s})
			}
			n++
			hs = append(hs, vk.Hash(s))
		}
		c.EvalBulk(n, hs)
		mu.Lock()
		for k, v := range local {
			causes[k] += v
		}
		mu.Unlock()
	})
	c.Count("strings_checked", int64(len(all)))
	c.Extra("cause_classes", causes)
	c.Sample(map[string]any{"string": "a/+/#", "reference_filter_valid": refmatch.ValidFilter("a/+/#"), "mochi": mqtt.IsValidFilter("a/+/#", false)})
	c.Sample(map[string]any{"string": "$share/a/+a", "reference_filter_valid": refmatch.ValidFilter("$share/a/+a"), "mochi": mqtt.IsValidFilter("$share/a/+a", false)})
	c.MinEvents["strings_checked"] = 30000

	c30EndToEnd(c, all)
}
