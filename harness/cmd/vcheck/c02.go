package main

import (
	"fmt"
	"sort"
	"strings"

	mqtt "github.com/mochi-mqtt/server/v2"
	"github.com/mochi-mqtt/server/v2/packets"

	"verif/harness/refmatch"
	"verif/harness/vk"
)

func init() { register("C02", "exploration", checkC02) }

func retainPk(topic, payload string) packets.Packet {
	return packets.Packet{FixedHeader: packets.FixedHeader{Type: packets.Publish, Retain: true}, TopicName: topic, Payload: []byte(payload)}
}

func c02Actual(x *mqtt.TopicsIndex, filter string) []string {
	var out []string
	for _, pk := range x.Messages(filter) {
		out = append(out, pk.TopicName+"="+string(pk.Payload))
	}
	sort.Strings(out)
	return out
}

func c02Expected(ret map[string]string, filter string) []string {
	var out []string
	for t, p := range ret {
		if refmatch.Match(filter, t) {
			out = append(out, t+"="+p)
		}
	}
	sort.Strings(out)
	return out
}

func checkC02(c *vk.Ctx) {
	depth := 3
	c.Rule = "(1) every single retained topic of depth<=3 over levels {'',a,b,$x,$SYS} x every reference-valid filter of depth<=3 over {'',a,b,+,#,$x,$SYS}: Messages(filter) == {topic} iff refmatch.Match (exhaustive); " +
		"(2) retained sets of size 2-3 (PRNG; thorough: all pairs) x all filters; (3) random retain/overwrite/clear histories of 30-200 ops at depth<=6 (with interleaved subscribe/unsubscribe to exercise trim) checked after every op against a map model, " +
		"each message exactly once; (4) live/retained agreement: t in Messages(f) <=> client subscribed to f in Subscribers(t). nontrivial = distinct (retained set, filter) with >=1 expected message"
	c.Assumptions = []string{"refmatch.Match implements MQTT 4.7 matching as restated in C02/C01"}
	c.Exhaustive = true

	var filters []string
	for _, f := range enumLevels(c01FilterLevels, depth) {
		if refmatch.ValidFilter(f) && !strings.HasPrefix(f, "$share") {
			filters = append(filters, f)
		}
	}
	var topics []string
	for _, t := range enumLevels(c01TopicLevels, depth) {
		if t != "" {
			topics = append(topics, t)
		}
	}

	compare := func(x *mqtt.TopicsIndex, ret map[string]string, f string, ctxs string, witness any) bool {
		want := c02Expected(ret, f)
		got := c02Actual(x, f)
		if eqStrs(want, got) {
			return len(want) > 0
		}
		// classify
		rule := "C02/missing-retained"
		gotSet := map[string]int{}
		for _, g := range got {
			gotSet[g]++
		}
		wantSet := map[string]bool{}
		for _, w := range want {
			wantSet[w] = true
		}
		dollar := false
		parent := false
		for g, n := range gotSet {
			if n > 1 {
				rule = "C02/duplicate-retained"
			}
			if !wantSet[g] {
				rule = "C02/unmatched-retained-returned"
				if g[0] == '$' {
					dollar = true
				}
			}
		}
		if rule == "C02/missing-retained" {
			for _, w := range want {
				if gotSet[w] == 0 {
					t := w[:strings.IndexByte(w, '=')]
					if strings.HasSuffix(f, "#") && strings.Count(t, "/") == strings.Count(f, "/")-1 {
						parent = true
					}
				}
			}
		}
		c.Violate(rule, map[string]string{"shape": filterShape(f), "dollar": fmt.Sprint(dollar), "hash_parent": fmt.Sprint(parent)},
			fmt.Sprintf("%s filter %q: expected %v got %v", ctxs, f, want, got), witness)
		return len(want) > 0
	}

	// (1) singles
	vk.Parallel(len(topics), 0, func(i int) {
		t := topics[i]
		x := mqtt.NewTopicsIndex()
		x.RetainMessage(retainPk(t, "p"))
		ret := map[string]string{t: "p"}
		var hs []uint64
		for _, f := range filters {
			if compare(x, ret, f, "single retained "+fmt.Sprintf("%q", t), map[string]any{"retained": []string{t}, "filter": f}) {
				hs = append(hs, vk.Hash("s", t, f))
			}
			// (4) live/retained agreement on the same pair
			y := mqtt.NewTopicsIndex()
			y.Subscribe("c", packets.Subscription{Filter: f})
			_, live := y.Subscribers(t).Subscriptions["c"]
			inRet := len(c02Actual(x, f)) > 0
			if live != inRet {
				c.Violate("C02/live-retained-disagree", map[string]string{"shape": filterShape(f), "dollar": fmt.Sprint(t[0] == '$')},
					fmt.Sprintf("filter %q topic %q: live delivery selects=%v but retained selection=%v", f, t, live, inRet), map[string]any{"filter": f, "topic": t})
			}
		}
		c.EvalBulk(int64(len(filters)), hs)
	})

	// (2) sets of size 2..3
	type set []string
	var sets []set
	if !c.Quick() {
		for i := 0; i < len(topics); i++ {
			for j := i + 1; j < len(topics); j++ {
				sets = append(sets, set{topics[i], topics[j]})
			}
		}
	}
	r := vk.Sub(c.Seed, 2)
	nrand := c.N(600, 20000)
	for i := 0; i < nrand; i++ {
		n := r.Range(2, 3)
		var s set
		for len(s) < n {
			s = append(s, vk.Pick(r, topics))
		}
		sets = append(sets, s)
	}
	vk.Parallel(len(sets), 0, func(i int) {
		s := sets[i]
		x := mqtt.NewTopicsIndex()
		ret := map[string]string{}
		for k, t := range s {
			p := fmt.Sprintf("p%d", k)
			x.RetainMessage(retainPk(t, p))
			ret[t] = p
		}
		var hs []uint64
		rr := vk.Sub(c.Seed, 3, uint64(i))
		fs := filters
		if !c.Quick() && i%4 != 0 { // thorough: full filter list on a quarter of the sets, 40 sampled filters on the rest
			fs = nil
			for k := 0; k < 40; k++ {
				fs = append(fs, vk.Pick(rr, filters))
			}
		} else if c.Quick() {
			fs = nil
			for k := 0; k < 70; k++ {
				fs = append(fs, vk.Pick(rr, filters))
			}
		}
		for _, f := range fs {
			if compare(x, ret, f, fmt.Sprintf("retained set %v", s), map[string]any{"retained": s, "filter": f}) {
				hs = append(hs, vk.Hash("set", s, f))
			}
		}
		c.EvalBulk(int64(len(fs)), hs)
	})
	c.Count("retained_sets", int64(len(sets)))

	// (3) histories
	nh := c.N(300, 6000)
	lv := []string{"", "a", "b", "c", "$x", "$SYS"}
	vk.Parallel(nh, 0, func(i int) {
		r := vk.Sub(c.Seed, 4, uint64(i))
		x := mqtt.NewTopicsIndex()
		ret := map[string]string{}
		var pool []string
		for k := 0; k < 6; k++ {
			d := r.Range(1, 6)
			if r.Chance(50) {
				d = r.Range(1, 3)
			}
			ls := make([]string, d)
			for j := range ls {
				ls[j] = vk.Pick(r, lv)
			}
			t := strings.Join(ls, "/")
			if t == "" {
				t = "a"
			}
			pool = append(pool, t)
			if d > 1 && r.Chance(60) { // prefixes of one another
				pool = append(pool, strings.Join(ls[:d-1], "/"))
			}
		}
		for k := range pool {
			if pool[k] == "" {
				pool[k] = "b"
			}
		}
		nops := r.Range(30, c.N(60, 200))
		var ops []string
		nontrivial := false
		for o := 0; o < nops; o++ {
			t := vk.Pick(r, pool)
			switch r.Intn(10) {
			case 0, 1, 2, 3:
				p := fmt.Sprintf("m%d", o)
				x.RetainMessage(retainPk(t, p))
				ret[t] = p
				ops = append(ops, "retain "+t+"="+p)
			case 4, 5, 6:
				x.RetainMessage(retainPk(t, ""))
				delete(ret, t)
				ops = append(ops, "clear "+t)
			case 7:
				x.Subscribe("c", packets.Subscription{Filter: t})
				ops = append(ops, "sub "+t)
			case 8:
				x.Unsubscribe(t, "c")
				ops = append(ops, "unsub "+t)
			case 9:
				x.Unsubscribe(t+"/x", "c")
				ops = append(ops, "unsub "+t+"/x")
			}
			// query: exact topics, a few wildcard filters derived from the pool, and the global ones
			qs := []string{"#", "+", "+/#", "+/+", t}
			parts := strings.Split(t, "/")
			if len(parts) > 1 {
				qs = append(qs, strings.Join(parts[:len(parts)-1], "/")+"/#", strings.Join(parts[:len(parts)-1], "/")+"/+")
				pp := append([]string{}, parts...)
				pp[r.Intn(len(pp))] = "+"
				qs = append(qs, strings.Join(pp, "/"))
			}
			qs = append(qs, t+"/#")
			for _, f := range qs {
				if !refmatch.ValidFilter(f) || strings.HasPrefix(f, "$share") {
					continue
				}
				if compare(x, ret, f, fmt.Sprintf("history step %d", o), map[string]any{"ops": append([]string{}, ops...), "filter": f}) {
					nontrivial = true
				}
			}
			c.Count("history_queries", int64(len(qs)))
		}
		c.Eval(vk.Hash("hist", i, ops), nontrivial)
		if i == 0 {
			c.Sample(map[string]any{"history_ops_first_12": ops[:12], "pool": pool})
		}
	})
	c.Count("histories", int64(nh))
	c.Sample(map[string]any{"single": "retained a, filter a/#", "reference_match": refmatch.Match("a/#", "a")})
	c.MinEvents["history_queries"] = 1000
	c02EndToEnd(c)
}
