//go:build !lockmon

package main

var lockmonFlush = func() {}

const lockmonBuild = false
