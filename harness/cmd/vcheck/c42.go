package main

import (
	"fmt"

	rc "verif/harness/refcodec"
	"verif/harness/vk"
)

func init() { register("C42", "exploration", checkC42) }

var clientTypes = []byte{rc.CONNECT, rc.PUBLISH, rc.PUBACK, rc.PUBREC, rc.PUBREL, rc.PUBCOMP, rc.SUBSCRIBE, rc.UNSUBSCRIBE, rc.PINGREQ, rc.DISCONNECT, rc.AUTH}

func hasTail(t byte) bool { return isAck(t) || t == rc.DISCONNECT || t == rc.AUTH }

func permuteProps(r *vk.Rand, ps rc.Props) rc.Props {
	if len(ps) < 2 {
		return ps
	}
	// permute while keeping the relative order of properties with the same id (user properties)
	idx := r.Perm(len(ps))
	out := make(rc.Props, 0, len(ps))
	for _, i := range idx {
		out = append(out, ps[i])
	}
	// restore relative order within each id
	byID := map[byte][]rc.Prop{}
	for _, p := range ps {
		byID[p.ID] = append(byID[p.ID], p)
	}
	cnt := map[byte]int{}
	for i, p := range out {
		out[i] = byID[p.ID][cnt[p.ID]]
		cnt[p.ID]++
	}
	return out
}

func checkC42(c *vk.Ctx) {
	if err := rc.SelfTest(); err != nil {
		fmt.Println("BROKEN refcodec selftest:", err)
		c.MinEvents["selftest"] = 1
		return
	}
	nPer := c.N(500, 40000)
	c.Rule = fmt.Sprintf("%d generated values per client->server packet type x version 4/5 (3 for CONNECT too), each encoded by the independent reference encoder in every permitted form "+
		"(acks: remaining length 2 / 3 / 4+; DISCONNECT and AUTH: 0 / 1 / 2+; property block in 3 random orders; empty property block present) and decoded by the broker's decoder: no error and decoded value == sender's value. "+
		"End-to-end: shortened DISCONNECT 0x04 publishes the will; session-expiry update in reordered DISCONNECT properties; ack reason codes. nontrivial = distinct (value, encoding form, property order)", nPer)
	c.Assumptions = []string{"refcodec encoder emits only encodings the specification (as restated in C42) permits", "user property relative order is part of the value and is never permuted"}

	type job struct{ t, v byte }
	var jobs []job
	for _, t := range clientTypes {
		for _, v := range []byte{3, 4, 5} {
			if (v == 3 && t != rc.CONNECT) || (t == rc.AUTH && v != 5) {
				continue
			}
			jobs = append(jobs, job{t, v})
		}
	}
	vk.Parallel(len(jobs)*8, 0, func(ji int) {
		j := jobs[ji/8]
		shard := ji % 8
		var hs []uint64
		n := int64(0)
		for k := shard; k < nPer; k += 8 {
			r := vk.Sub(c.Seed, 42, uint64(j.t), uint64(j.v), uint64(k))
			v := rc.GenPacket(r, j.t, j.v)
			want := normalise(v)
			forms := []rc.Form{rc.FormAuto}
			if hasTail(j.t) && j.v == 5 {
				forms = []rc.Form{rc.FormAuto, rc.FormFull}
				if len(v.Props) == 0 {
					forms = append(forms, rc.FormReason)
				}
			}
			for _, form := range forms {
				for perm := 0; perm < 3; perm++ {
					w := *v
					if perm > 0 {
						if len(v.Props) < 2 && len(v.WillProps) < 2 {
							break
						}
						w.Props = permuteProps(r, v.Props)
						w.WillProps = permuteProps(r, v.WillProps)
					}
					wire := rc.Encode(&w, form)
					hdr, body, err := splitWire(wire)
					if err != nil {
						c.Note("refcodec produced inconsistent length: " + err.Error())
						continue
					}
					n++
					attrs := map[string]string{"type": rc.TypeNames[j.t], "v5": fmt.Sprint(j.v == 5), "remaining": fmt.Sprint(min(len(body), 5)), "permuted": fmt.Sprint(perm > 0)}
					pk, derr, panicked := mochiDecode(j.v, hdr, body)
					if derr != nil {
						rule := "C42/valid-encoding-rejected"
						if panicked {
							rule = "C42/valid-encoding-panics"
						}
						c.Violate(rule, attrs, fmt.Sprintf("%s v%d form=%d wire=% x: %v", rc.TypeNames[j.t], j.v, form, head(wire), derr), map[string]any{"packet": v, "wire": fmt.Sprintf("% x", head(wire))})
						continue
					}
					if d := diffPackets(want, normalise(fromMochi(pk))); len(d) > 0 {
						attrs["field"] = fieldOf(d[0])
						c.Violate("C42/decoded-differs", attrs, fmt.Sprintf("%s v%d form=%d wire=% x: %v", rc.TypeNames[j.t], j.v, form, head(wire), d), map[string]any{"packet": v, "wire": fmt.Sprintf("% x", head(wire)), "diff": d})
					}
					hs = append(hs, vk.Hash("C42", j.t, j.v, k, form, perm))
					if k == 0 && j.t == rc.DISCONNECT && j.v == 5 {
						c.Sample(map[string]any{"value": v.String(), "form": form, "wire": fmt.Sprintf("% x", head(wire))})
					}
				}
			}
		}
		c.EvalBulk(n, hs)
		c.Count("encodings_decoded", n)
	})
	// fixed short forms, always included
	for _, s := range []struct {
		hex    string
		reason byte
	}{{"e0 00", 0}, {"e0 01 04", 4}, {"e0 01 00", 0}, {"e0 02 04 00", 4}, {"f0 00", 0}, {"f0 01 18", 0x18}, {"f0 02 19 00", 0x19}, {"40 02 00 07", 0}, {"40 03 00 07 10", 0x10}, {"70 03 00 07 92", 0x92}, {"62 04 00 07 92 00", 0x92}} {
		wire := unhexs(s.hex)
		hdr, body, _ := splitWire(wire)
		pk, err, _ := mochiDecode(5, hdr, body)
		if err != nil || pk.ReasonCode != s.reason {
			c.Violate("C42/short-form", map[string]string{"wire": s.hex}, fmt.Sprintf("%s: err=%v reason=0x%02x want 0x%02x", s.hex, err, pk.ReasonCode, s.reason), map[string]any{"wire": s.hex})
		}
		c.Eval(vk.Hash("short", s.hex), true)
		c.Count("fixed_short_forms", 1)
	}
	c.MinEvents["encodings_decoded"] = 10000
	c42EndToEnd(c)
}
