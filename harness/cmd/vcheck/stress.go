package main

import (
	"bytes"
	"encoding/json"
	"fmt"
	"os"
	"runtime"
	"strconv"
	"sync"
	"sync/atomic"
	"time"

	mqtt "github.com/mochi-mqtt/server/v2"
	"github.com/mochi-mqtt/server/v2/listeners"
	"github.com/mochi-mqtt/server/v2/packets"

	"verif/harness/eng"
	rc "verif/harness/refcodec"
	"verif/harness/vk"
)

// The concurrent stress scenario shared by C33 (race detector) and C32 (lock monitor build).
// It only uses what an embedding application or a network client can do: connections, the inline
// API, hooks, Serve/Close, and the housekeeping entry points (with a clock in the future so that
// expiry paths run). No stepping, no quiescence: everything overlaps.

type stressOpts struct {
	Seed      int64 `json:"seed"`
	Clients   int   `json:"clients"`
	Ops       int   `json:"ops_per_client"`
	Serve     bool  `json:"serve_event_loop"`
	Sleeps    bool  `json:"random_sleeps_at_schedule_points"`
	SmallBufs bool  `json:"small_buffers"`
}

type stressStats struct {
	Ops       map[string]int64 `json:"ops"`
	Received  int64            `json:"packets_received"`
	Connects  int64            `json:"connacks"`
	Houseruns int64            `json:"housekeeping_rounds"`
	CloseOK   bool             `json:"close_returned"`
	PingOK    int64            `json:"pings_answered"`
	PingLost  int64            `json:"pings_unanswered"`
	Elapsed   float64          `json:"elapsed_s"`
}

var stressTopics = []string{"a", "a/b", "a/c", "b/b", "a/b/c"}
var stressFilters = []string{"a", "a/b", "a/+", "a/#", "#", "+/b", "$share/g/a/#", "$share/g/a/b", "a/b/c"}

type stressClient struct {
	b     *eng.Broker
	r     *vk.Rand
	id    string
	ver   byte
	c     *eng.Client
	pid   uint16
	stats *stressStats
	mu    *sync.Mutex
	hold  bool
}

func (s *stressClient) count(k string) {
	s.mu.Lock()
	s.stats.Ops[k]++
	s.mu.Unlock()
}

func (s *stressClient) send(p *rc.Packet) {
	p.Version = s.ver
	s.c.Send(p, rc.FormAuto)
}

// pump drains broker output and answers it the way a client would.
func (s *stressClient) pump() {
	for _, rp := range s.c.Drain() {
		atomic.AddInt64(&s.stats.Received, 1)
		p := rp.P
		switch p.Type {
		case rc.CONNACK:
			if p.Reason == 0 {
				atomic.AddInt64(&s.stats.Connects, 1)
			}
		case rc.PUBLISH:
			if s.hold {
				continue
			}
			if p.QoS == 1 {
				s.send(&rc.Packet{Type: rc.PUBACK, PacketID: p.PacketID})
			} else if p.QoS == 2 {
				s.send(&rc.Packet{Type: rc.PUBREC, PacketID: p.PacketID})
			}
		case rc.PUBREC:
			if p.Reason < 0x80 {
				s.send(&rc.Packet{Type: rc.PUBREL, PacketID: p.PacketID})
			}
		case rc.PUBREL:
			s.send(&rc.Packet{Type: rc.PUBCOMP, PacketID: p.PacketID})
		}
	}
}

func (s *stressClient) connected() bool {
	if s.c == nil {
		return false
	}
	closed, _ := s.c.MC.BrokerClosed()
	return !closed && !s.c.Done()
}

func (s *stressClient) connect() {
	r := s.r
	s.c = s.b.Attach()
	s.ver = vk.Pick(r, []byte{4, 5, 5, 3})
	s.c.Version = s.ver
	s.hold = r.Chance(20)
	p := &rc.Packet{Type: rc.CONNECT, ProtoLevel: s.ver, ProtoName: "MQTT", ClientID: s.id, KeepAlive: uint16(r.Intn(3)) * 30}
	if s.ver == 3 {
		p.ProtoName = "MQIsdp"
	}
	if r.Chance(40) {
		p.ConnectFlags |= 2
	}
	if r.Chance(40) {
		q := byte(r.Intn(3))
		p.ConnectFlags |= 4 | q<<3
		if r.Chance(30) {
			p.ConnectFlags |= 0x20
		}
		p.WillTopic, p.WillPayload = vk.Pick(r, stressTopics), []byte("will-"+s.id)
		if s.ver == 5 && r.Chance(50) {
			p.WillProps = rc.Props{{ID: rc.PWillDelay, Num: uint32(r.Intn(3))}}
		}
	}
	if s.ver == 5 {
		if r.Chance(70) {
			p.Props = append(p.Props, rc.Prop{ID: rc.PSessionExpiry, Num: uint32(vk.Pick(r, []int{0, 1, 50, 300}))})
		}
		if r.Chance(40) {
			p.Props = append(p.Props, rc.Prop{ID: rc.PReceiveMaximum, Num: uint32(r.Range(1, 3))})
		}
		if r.Chance(30) {
			p.Props = append(p.Props, rc.Prop{ID: rc.PTopicAliasMax, Num: uint32(r.Range(1, 3))})
		}
		if r.Chance(25) {
			p.Props = append(p.Props, rc.Prop{ID: rc.PMaxPacketSize, Num: uint32(vk.Pick(r, []int{48, 90, 200}))})
		}
	}
	s.c.Send(p, rc.FormAuto)
	s.count("connect")
}

// settle waits (bounded) until the broker has consumed what this connection sent, so that a
// connection's own operations are processed one after the other while connections overlap freely.
func (s *stressClient) settle() {
	for k := 0; k < 4000; k++ {
		if s.c.MC.Idle() || !s.connected() {
			return
		}
		if k < 50 {
			runtime.Gosched()
		} else {
			time.Sleep(20 * time.Microsecond)
		}
	}
}

func (s *stressClient) step() {
	r := s.r
	if !s.connected() {
		s.connect()
		s.settle()
		s.pump()
		return
	}
	if r.Chance(85) {
		s.settle()
	}
	s.pump()
	switch x := r.Intn(100); {
	case x < 18:
		s.pid++
		f := rc.SubFilter{Filter: vk.Pick(r, stressFilters), Options: byte(r.Intn(3))}
		p := &rc.Packet{Type: rc.SUBSCRIBE, PacketID: 20000 + s.pid, Filters: []rc.SubFilter{f}}
		if s.ver == 5 && r.Chance(30) {
			p.Props = rc.Props{{ID: rc.PSubscriptionID, Num: uint32(r.Range(1, 9))}}
		}
		s.send(p)
		s.count("subscribe")
	case x < 26:
		s.pid++
		s.send(&rc.Packet{Type: rc.UNSUBSCRIBE, PacketID: 20000 + s.pid, Filters: []rc.SubFilter{{Filter: vk.Pick(r, stressFilters)}}})
		s.count("unsubscribe")
	case x < 70:
		q := byte(r.Intn(3))
		p := &rc.Packet{Type: rc.PUBLISH, Topic: vk.Pick(r, stressTopics), QoS: q, Retain: r.Chance(15), Payload: []byte(s.id + "-" + strconv.Itoa(int(s.pid)))}
		if r.Chance(10) {
			p.Payload = nil
		} else if r.Chance(12) {
			// now and then a message that does not fit the Maximum Packet Size some subscribers announced
			p.Payload = append(p.Payload, bytes.Repeat([]byte{'x'}, r.Range(60, 400))...)
		}
		if q > 0 {
			s.pid++
			p.PacketID = 20000 + s.pid
		}
		if s.ver == 5 && r.Chance(20) {
			p.Props = rc.Props{{ID: rc.PTopicAlias, Num: uint32(r.Range(1, 3))}}
		}
		if s.ver == 5 && r.Chance(20) {
			p.Props = append(p.Props, rc.Prop{ID: rc.PMessageExpiry, Num: uint32(r.Range(1, 100))})
		}
		s.send(p)
		s.count("publish")
	case x < 78:
		s.send(&rc.Packet{Type: rc.PINGREQ})
		s.count("ping")
	case x < 82:
		s.hold = !s.hold
	case x < 90:
		switch r.Intn(4) {
		case 0:
			s.send(&rc.Packet{Type: rc.DISCONNECT})
		case 1:
			if s.ver == 5 {
				s.send(&rc.Packet{Type: rc.DISCONNECT, Reason: 0x04})
			} else {
				s.c.MC.CloseByClient()
			}
		case 2:
			s.c.MC.CloseByClient()
		case 3:
			s.c.MC.FireDeadline()
		}
		s.count("disconnect")
	default:
		runtime.Gosched()
	}
}

type stressHandlerLog struct{ n atomic.Int64 }

func runStress(o stressOpts) stressStats {
	st := stressStats{Ops: map[string]int64{}}
	var mu sync.Mutex
	t0 := time.Now()
	opts := eng.Options{Inline: true}
	if o.SmallBufs {
		opts.WriteBuf = 64
		opts.Caps = func(c *mqtt.Capabilities) { c.MaximumClientWritesPending = 4; c.MaximumInflight = 8 }
	}
	b := eng.NewBroker(opts)
	if o.Serve {
		_ = b.S.AddListener(listeners.NewTCP(listeners.Config{ID: "t1", Address: "127.0.0.1:0"}))
		_ = b.S.Serve()
	}
	if o.Sleeps {
		ctl := b.EnableControl()
		var seed atomic.Uint64
		seed.Store(uint64(o.Seed))
		ctl.Sleep = func(string) time.Duration {
			v := seed.Add(0x9E3779B97F4A7C15)
			v = (v ^ (v >> 30)) * 0xBF58476D1CE4E5B9
			return time.Duration((v>>33)%120) * time.Microsecond
		}
	}
	var wg sync.WaitGroup
	var stop atomic.Bool
	ids := []string{"c0", "c1", "c2", "c3", "c4", "c5"}
	for g := 0; g < o.Clients; g++ {
		wg.Add(1)
		go func(g int) {
			defer wg.Done()
			sc := &stressClient{b: b, r: vk.Sub(o.Seed, 33, uint64(g)), id: ids[g%len(ids)], stats: &st, mu: &mu}
			for i := 0; i < o.Ops; i++ {
				sc.step()
				if sc.r.Chance(30) {
					runtime.Gosched()
				}
			}
			// bounded-progress probe: a fresh ping on a live connection must be answered
			if sc.connected() {
				sc.pump()
				before := len(sc.c.Inbox)
				sc.send(&rc.Packet{Type: rc.PINGREQ})
				ok := false
				for k := 0; k < 20000 && !ok; k++ {
					sc.pump()
					for _, rp := range sc.c.Inbox[before:] {
						if rp.P.Type == rc.PINGRESP {
							ok = true
						}
					}
					if !sc.connected() {
						break
					}
					time.Sleep(100 * time.Microsecond)
				}
				if ok {
					atomic.AddInt64(&st.PingOK, 1)
				} else if sc.connected() {
					atomic.AddInt64(&st.PingLost, 1)
				}
				sc.c.MC.CloseByClient()
			}
		}(g)
	}
	// housekeeping + inline API
	var hwg sync.WaitGroup
	hwg.Add(1)
	go func() {
		defer hwg.Done()
		r := vk.Sub(o.Seed, 33, 1000)
		var hl stressHandlerLog
		n := 0
		for !stop.Load() {
			n++
			now := time.Now().Unix()
			switch r.Intn(9) {
			case 0:
				b.S.VerifClearExpiredClients(now + int64(vk.Pick(r, []int{0, 2, 100, 100000})))
			case 1:
				b.S.VerifClearExpiredRetainedMessages(now + int64(vk.Pick(r, []int{0, 50, 100000})))
			case 2:
				b.S.VerifClearExpiredInflights(now + int64(vk.Pick(r, []int{0, 50, 100000})))
			case 3:
				b.S.VerifSendDelayedLWT(now + int64(r.Intn(4)))
			case 4:
				b.S.VerifPublishSysTopics()
			case 5:
				_ = b.S.Publish(vk.Pick(r, stressTopics), []byte("inline"), r.Chance(20), byte(r.Intn(3)))
			case 6:
				_ = b.S.Subscribe(vk.Pick(r, stressFilters[:6]), r.Range(1, 3), func(cl *mqtt.Client, sub packets.Subscription, pk packets.Packet) { hl.n.Add(1) })
			case 7:
				_ = b.S.Unsubscribe(vk.Pick(r, stressFilters[:6]), r.Range(1, 3))
			case 8:
				_ = b.S.Info.Clone()
				_ = b.S.Clients.Len()
			}
			atomic.AddInt64(&st.Houseruns, 1)
			if r.Chance(50) {
				runtime.Gosched()
			} else {
				time.Sleep(time.Duration(r.Intn(200)) * time.Microsecond)
			}
		}
	}()
	wg.Wait()
	stop.Store(true)
	hwg.Wait()
	done := make(chan struct{})
	go func() { _ = b.S.Close(); close(done) }()
	select {
	case <-done:
		st.CloseOK = true
	case <-time.After(20 * time.Second):
	}
	b.Shutdown()
	st.Elapsed = time.Since(t0).Seconds()
	return st
}

func init() {
	children["stress"] = func(args []string) {
		var o stressOpts
		if len(args) < 1 || json.Unmarshal([]byte(args[0]), &o) != nil {
			fmt.Fprintln(os.Stderr, "stress child: bad options")
			os.Exit(2)
		}
		st := runStress(o)
		lockmonFlush()
		b, _ := json.Marshal(st)
		fmt.Println(string(b))
	}
}
