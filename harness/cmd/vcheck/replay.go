package main

import (
	"encoding/json"
	"fmt"
	"os"

	"verif/harness/hist"
)

// replayFile re-executes the history stored in a replay file (history-engine witnesses) with
// tracing on and prints the trace and the model's findings. Other witnesses are printed as-is.
func replayFile(path string) int {
	b, err := os.ReadFile(path)
	if err != nil {
		fmt.Println("replay:", err)
		return 2
	}
	var doc struct {
		Property  string `json:"property"`
		Violation struct {
			Rule    string          `json:"rule"`
			Detail  string          `json:"detail"`
			Witness json.RawMessage `json:"witness"`
		} `json:"violation"`
	}
	if err := json.Unmarshal(b, &doc); err != nil {
		fmt.Println("replay:", err)
		return 2
	}
	var w struct {
		Config  *hist.Config `json:"config"`
		SlotIDs []string     `json:"slot_client_ids"`
		Ops     []hist.Op    `json:"ops"`
		Step    int          `json:"failing_step"`
	}
	if json.Unmarshal(doc.Violation.Witness, &w) != nil || w.Config == nil || len(w.Ops) == 0 {
		fmt.Printf("replay: %s %s\n%s\nwitness: %s\n", doc.Property, doc.Violation.Rule, doc.Violation.Detail, string(doc.Violation.Witness))
		return 0
	}
	res := hist.RunCase(w.Config, w.SlotIDs, w.Ops, true, nil)
	for _, l := range res.Trace {
		fmt.Println(l)
	}
	rc := 0
	for _, f := range res.Findings {
		fmt.Printf("FINDING step=%d rule=%s attrs=%v %s\n", f.Step, f.Rule, f.Attrs, f.Detail)
		if f.Rule == doc.Violation.Rule {
			rc = 1
		}
	}
	if rc == 1 {
		fmt.Printf("VIOLATION property=%s replay=%s\n", doc.Property, path)
	}
	return rc
}
