package main

import (
	"encoding/hex"
	"encoding/json"
	"fmt"
	"os"
	"runtime"
	"time"

	mqtt "github.com/mochi-mqtt/server/v2"

	"verif/harness/eng"

	"verif/harness/hist"
)

// replayFile re-executes the history stored in a replay file (history-engine witnesses) with
// tracing on and prints the trace and the model's findings. Other witnesses are printed as-is.
func replayFile(path string) int {
	b, err := os.ReadFile(path)
	if err != nil {
		fmt.Println("replay:", err)
		return 2
	}
	var doc struct {
		Property  string `json:"property"`
		Violation struct {
			Rule    string          `json:"rule"`
			Detail  string          `json:"detail"`
			Witness json.RawMessage `json:"witness"`
		} `json:"violation"`
	}
	if err := json.Unmarshal(b, &doc); err != nil {
		fmt.Println("replay:", err)
		return 2
	}
	var hw struct {
		Stream *hostileStream `json:"stream"`
	}
	if json.Unmarshal(doc.Violation.Witness, &hw) == nil && hw.Stream != nil && len(hw.Stream.Conns) > 0 {
		return replayHostile(doc.Property, path, hw.Stream)
	}
	var w struct {
		Config  *hist.Config `json:"config"`
		SlotIDs []string     `json:"slot_client_ids"`
		Ops     []hist.Op    `json:"ops"`
		Step    int          `json:"failing_step"`
	}
	if json.Unmarshal(doc.Violation.Witness, &w) != nil || w.Config == nil || len(w.Ops) == 0 {
		fmt.Printf("replay: %s %s\n%s\nwitness: %s\n", doc.Property, doc.Violation.Rule, doc.Violation.Detail, string(doc.Violation.Witness))
		return 0
	}
	res := hist.RunCase(w.Config, w.SlotIDs, w.Ops, true, nil)
	for _, l := range res.Trace {
		fmt.Println(l)
	}
	rc := 0
	for _, f := range res.Findings {
		fmt.Printf("FINDING step=%d rule=%s attrs=%v %s\n", f.Step, f.Rule, f.Attrs, f.Detail)
		if f.Rule == doc.Violation.Rule {
			rc = 1
		}
	}
	if rc == 1 {
		fmt.Printf("VIOLATION property=%s replay=%s\n", doc.Property, path)
	}
	return rc
}

// replayHostile re-delivers a recorded hostile stream to a fresh broker in this process.
func replayHostile(prop, path string, hs *hostileStream) int {
	b := eng.NewBroker(eng.Options{Caps: func(c *mqtt.Capabilities) { c.MaximumPacketSize = hs.MPS }})
	d, _ := dConnect(b, 5, "ref", true, nil, nil)
	d.send(subscribePkt(1, "ref/t", 1))
	ref := &refClient{d: d}
	var conns []*eng.Client
	for range hs.Conns {
		conns = append(conns, b.Attach())
	}
	for k := 0; ; k++ {
		any := false
		for i, chunks := range hs.Conns {
			if k < len(chunks) {
				ch, _ := hex.DecodeString(chunks[k])
				conns[i].SendRaw(ch)
				any = true
			}
		}
		if !any {
			break
		}
	}
	if !b.Quiesce(10 * time.Second) {
		fmt.Println("broker did not become quiescent within 10 s; goroutines:")
		buf := make([]byte, 1<<20)
		fmt.Println(string(buf[:runtime.Stack(buf, true)]))
		fmt.Printf("VIOLATION property=%s replay=%s\n", prop, path)
		return 1
	}
	for i, c := range conns {
		cl, _ := c.MC.BrokerClosed()
		fmt.Printf("hostile connection %d: closed=%v handler_returned=%v consumed=%d bytes\n", i, cl, c.Done(), c.MC.Consumed())
	}
	if why := ref.round(b); why != "" {
		fmt.Println("reference client:", why)
		fmt.Printf("VIOLATION property=%s replay=%s\n", prop, path)
		return 1
	}
	fmt.Println("stream delivered; broker quiescent; reference client served")
	return 0
}
