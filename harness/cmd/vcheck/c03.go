package main

import (
	"verif/harness/hist"
	"verif/harness/vk"
)

func init() { register("C03", "exploration", checkC03) }

var baseTopics = []string{"a", "a/b", "a/c", "b", "a/b/c"}
var baseFilters = []string{"a", "a/b", "a/+", "a/#", "#", "+/b", "b", "+", "a/b/c", "+/#", "a/+/#"}

func deliveryProfile() *hist.Profile {
	return &hist.Profile{
		Name: "delivery", IDs: []string{"c0", "c1", "c2", "c3"}, SlotIDs: []int{0, 1, 2, 3}, Versions: []byte{4, 5, 5, 3},
		Topics: baseTopics, Filters: baseFilters, Steps: [2]int{20, 45},
		W:      map[string]int{"connect": 3, "subscribe": 5, "unsubscribe": 2, "publish": 10, "disconnect": 1, "ping": 1},
		PubQoS: []byte{0, 1, 2}, SubQoS: []byte{0, 1, 2}, MaxQoS: []byte{2, 2, 1},
		RetainPct: 10, SubIDPct: 40, NLPct: 15, RAPPct: 30, RH: []byte{0, 0, 1, 2}, PropsPct: 50, CleanPct: 60,
		Expiry: []uint32{0, 300}, RPI0Pct: 25, HowDisc: []string{"normal", "drop"}, MultiFilter: true, ConnectAllFirst: true, NoSelfTakeover: true,
	}
}

func checkC03(c *vk.Ctx) {
	c.Rule = "seeded random histories (connect/subscribe/unsubscribe/publish/disconnect over 4 clients v3/v4/v5, 5 topics, 9 overlapping filters, QoS 0-2, No Local, subscription ids, all PUBLISH properties, Request Problem Information 0) executed step by step against the real broker over in-memory connections; " +
		"after every step each connection's decoded output is compared with the reference model's entitled set (unique payloads): missing, unentitled, duplicate deliveries, changed payload/properties/topic. Permitted omissions: OnPublishDropped events, InflightDropped increments, QoS 0 to offline sessions. nontrivial = distinct histories with >=1 observed delivery"
	c.Assumptions = []string{"reference model (hist) implements C03's entitlement rule; quiescence = every handler reader-idle and no outbound publish pending",
		"overlapping subscriptions that disagree on No Local: the model follows the statement (entitled if one does not exclude); see known findings"}
	h := &histRun{Prop: "C03", Profile: deliveryProfile(), N: c.N(300, 8000), Label: 3, Nontrivial: []string{"publish_delivered"}}
	h.run(c)
	c.MinEvents["publish_delivered"] = 500
}
