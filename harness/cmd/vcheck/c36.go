package main

import (
	"fmt"
	"net"
	"runtime"
	"strings"
	"sync"
	"sync/atomic"
	"time"

	mqtt "github.com/mochi-mqtt/server/v2"
	"github.com/mochi-mqtt/server/v2/hooks/auth"
	"github.com/mochi-mqtt/server/v2/listeners"

	"verif/harness/eng"
	rc "verif/harness/refcodec"
	"verif/harness/vk"
)

func init() { register("C36", "exploration", checkC36) }

// ---------------------------------------------------------------- in-memory connections, schedule controlled

type c36Case struct {
	Established []byte `json:"established_versions"`
	ParkPoint   string `json:"late_handler_parked_at,omitempty"`
	LateVer     byte   `json:"late_version,omitempty"`
	Subs        bool   `json:"with_subscriptions_and_inflight"`
}

// returns findings as (rule, attrs, detail)
type c36Finding struct {
	rule   string
	attrs  map[string]string
	detail string
}

func runC36Mem(cs c36Case) (out []c36Finding, reached bool, closeReturned bool) {
	b := eng.NewBroker(eng.Options{})
	ctl := b.EnableControl()
	defer b.DisableControl()
	var est []*dconn
	for i, v := range cs.Established {
		d, rx := dConnect(b, v, fmt.Sprintf("e%d", i), i%2 == 0, rc.Props{{ID: rc.PSessionExpiry, Num: 100}}, nil)
		if ca := hasType(rx, rc.CONNACK); ca == nil || ca.Reason != 0 {
			return nil, false, false
		}
		if cs.Subs {
			d.send(subscribePkt(1, "s/#", 1))
		}
		est = append(est, d)
	}
	if cs.Subs && len(est) > 0 {
		// leave QoS 1 messages unacknowledged on every subscriber
		est[0].send(publishPkt("s/x", 1, 7, "P", false))
	}
	var late *eng.Client
	if cs.ParkPoint != "" {
		ctl.ParkAt(cs.ParkPoint, "*")
		late = b.Attach()
		late.Version = cs.LateVer
		p := &rc.Packet{Type: rc.CONNECT, ProtoLevel: cs.LateVer, ProtoName: "MQTT", ClientID: "late", ConnectFlags: 2}
		late.Send(p, rc.FormAuto)
		if !ctl.WaitParked(cs.ParkPoint, "*", 1, 5*time.Second) {
			return nil, false, false
		}
	}
	callSeq := b.Seq.Next()
	var retSeq atomic.Int64
	closed := make(chan struct{})
	go func() {
		_ = b.S.Close()
		retSeq.Store(b.Seq.Next())
		close(closed)
	}()
	// give Close the chance to pass its disconnect phase, then let the late handler continue.
	if late != nil {
		select {
		case <-closed:
		case <-time.After(150 * time.Millisecond):
		}
		ctl.Release(cs.ParkPoint, "*")
	}
	select {
	case <-closed:
		closeReturned = true
	case <-time.After(5 * time.Second):
	}
	b.Quiesce(5 * time.Second)
	attrs := func(extra ...string) map[string]string {
		a := map[string]string{"transport": "memory"}
		if cs.ParkPoint != "" {
			a["late_handler_at"] = cs.ParkPoint
		}
		for i := 0; i+1 < len(extra); i += 2 {
			a[extra[i]] = extra[i+1]
		}
		return a
	}
	rs := retSeq.Load()
	// established connections
	for i, d := range est {
		rx := d.Drain()
		cl, _ := d.MC.BrokerClosed()
		if closeReturned && !cl {
			out = append(out, c36Finding{"C36/connection-open-after-close", attrs("phase", "established"), fmt.Sprintf("connection e%d (MQTT %d), established before Close was called, is still open after Close returned", i, cs.Established[i])})
		}
		if closeReturned && (d.RetSeq.Load() == 0 || d.RetSeq.Load() > rs) {
			out = append(out, c36Finding{"C36/handler-alive-after-close", attrs("phase", "established"), fmt.Sprintf("handler of e%d had not returned when Close returned (handler seq %d, close seq %d)", i, d.RetSeq.Load(), rs)})
		}
		if cs.Established[i] == 5 {
			var last *rc.Packet
			for _, p := range rx {
				last = p.P
			}
			if last == nil || last.Type != rc.DISCONNECT || last.Reason != 0x8B {
				out = append(out, c36Finding{"C36/no-shutdown-disconnect", attrs("phase", "established"), fmt.Sprintf("MQTT 5 connection e%d: last packet before close is %v, expected DISCONNECT 0x8B", i, last)})
			}
		}
	}
	if late != nil {
		late.Drain()
		var ca *rc.Packet
		for _, p := range late.Inbox {
			if p.P.Type == rc.CONNACK {
				ca = p.P
			}
		}
		cl, _ := late.MC.BrokerClosed()
		served := ca != nil && ca.Reason == 0 && !cl
		switch {
		case closeReturned && served:
			out = append(out, c36Finding{"C36/served-after-close", attrs("phase", "establishing"), fmt.Sprintf("a connection whose handler was at %s when Close was called got a success CONNACK and is being served after Close returned", cs.ParkPoint)})
		case !closeReturned && served:
			out = append(out, c36Finding{"C36/close-blocked-by-late-connection", attrs("phase", "establishing"), fmt.Sprintf("a connection whose handler was at %s when Close was called was admitted after the disconnect phase; it is served and Close does not return while it stays connected (watchdog 5 s)", cs.ParkPoint)})
		}
		if closeReturned && !served && !cl {
			out = append(out, c36Finding{"C36/connection-open-after-close", attrs("phase", "establishing"), fmt.Sprintf("the connection whose handler was at %s when Close was called is neither served nor closed after Close returned and the handler ran", cs.ParkPoint)})
		}
		lateRet := late.RetSeq.Load() // stamped at the deferred return point, before the wait group is signalled
		if lateRet == 0 && late.Done() {
			lateRet = late.DoneSeq // never registered (refused at the door): the goroutine's end is all there is
		}
		if closeReturned && (lateRet == 0 || lateRet > rs) {
			out = append(out, c36Finding{"C36/handler-alive-after-close", attrs("phase", "establishing", "unregistered_at_close", fmt.Sprint(cs.ParkPoint == "attach.handler_start")), fmt.Sprintf("the handler that was at %s when Close was called (seq %d) had not returned when Close returned (seq %d)", cs.ParkPoint, callSeq, rs)})
		}
	}
	if !closeReturned && late == nil {
		out = append(out, c36Finding{"C36/close-did-not-return", attrs(), "Close did not return within 5 s with only established connections"})
	}
	// unblock anything left so the broker can be torn down
	for _, c := range b.Conns() {
		c.MC.CloseByClient()
	}
	select {
	case <-closed:
	case <-time.After(5 * time.Second):
	}
	return out, true, closeReturned
}

// ---------------------------------------------------------------- real TCP listener, concurrent churn

type c36TCPResult struct {
	findings    []c36Finding
	established int
	handlers    int
	inFlight    int // dial/CONNECT in progress when Close was called
	afterDials  int
}

func goroutinesWith(sub string) int {
	buf := make([]byte, 1<<20)
	n := runtime.Stack(buf, true)
	cnt := 0
	for _, g := range strings.Split(string(buf[:n]), "\n\n") {
		for _, ln := range strings.Split(g, "\n") {
			if strings.HasPrefix(ln, sub) { // a frame of that function (not a "created by" line)
				cnt++
				break
			}
		}
	}
	return cnt
}

type tcpClient struct {
	c        net.Conn
	ver      byte
	connack  atomic.Bool
	ackedAt  atomic.Int64 // logical time of the CONNACK
	eof      atomic.Bool
	lastType atomic.Int32
	lastRC   atomic.Int32
}

func runC36TCP(r *vk.Rand, workers, opsBeforeClose int) c36TCPResult {
	var res c36TCPResult
	base := goroutinesWith("github.com/mochi-mqtt/server/v2.(*Server).attachClient(") // leftovers of earlier cases (none expected)
	s := mqtt.New(&mqtt.Options{Logger: quietLogger()})
	_ = s.AddHook(new(auth.AllowHook), nil)
	l := listeners.NewTCP(listeners.Config{ID: "t1", Address: "127.0.0.1:0"})
	if err := s.AddListener(l); err != nil {
		return res
	}
	if err := s.Serve(); err != nil {
		return res
	}
	addr := l.Address()
	var clock atomic.Int64
	var registered, returned atomic.Int64
	eng.ObservePoints(func(point, id string) {
		switch point {
		case "attach.handler_registered":
			registered.Add(1)
		case "attach.handler_return":
			returned.Add(1)
		}
	})
	defer eng.ObservePoints(nil)
	var mu sync.Mutex
	var clients []*tcpClient
	var ops atomic.Int64
	var stop atomic.Bool
	connectOne := func(id string, ver byte) {
		c, err := net.DialTimeout("tcp", addr, time.Second)
		if err != nil {
			return
		}
		tc := &tcpClient{c: c, ver: ver}
		mu.Lock()
		clients = append(clients, tc)
		mu.Unlock()
		p := &rc.Packet{Type: rc.CONNECT, ProtoLevel: ver, ProtoName: "MQTT", ClientID: id, ConnectFlags: 2}
		_, _ = c.Write(rc.Encode(p, rc.FormAuto))
		go func() {
			var buf []byte
			tmp := make([]byte, 2048)
			for {
				n, err := c.Read(tmp)
				buf = append(buf, tmp[:n]...)
				for {
					pk, used, e := rc.DecodeOne(ver, buf, false)
					if e != nil {
						break
					}
					buf = buf[used:]
					tc.lastType.Store(int32(pk.Type))
					tc.lastRC.Store(int32(pk.Reason))
					if pk.Type == rc.CONNACK && pk.Reason == 0 {
						tc.ackedAt.Store(clock.Add(1))
						tc.connack.Store(true)
					}
				}
				if err != nil {
					tc.eof.Store(true)
					return
				}
			}
		}()
	}
	var wg sync.WaitGroup
	seeds := make([]uint64, workers)
	for i := range seeds {
		seeds[i] = r.U64()
	}
	for w := 0; w < workers; w++ {
		wg.Add(1)
		go func(w int) {
			defer wg.Done()
			rr := vk.NewRand(seeds[w])
			n := 0
			for !stop.Load() {
				n++
				connectOne(fmt.Sprintf("w%d-%d", w, n), vk.Pick(rr, []byte{4, 5, 5}))
				ops.Add(1)
				if rr.Chance(30) {
					mu.Lock()
					if len(clients) > 0 {
						k := clients[rr.Intn(len(clients))]
						mu.Unlock()
						k.c.Close() // client-side drop
					} else {
						mu.Unlock()
					}
				}
				if rr.Chance(50) {
					runtime.Gosched()
				}
			}
		}(w)
	}
	for ops.Load() < int64(opsBeforeClose) {
		runtime.Gosched()
	}
	callAt := clock.Add(1)
	_ = s.Close()
	regAlive := registered.Load() - returned.Load() // handlers that had registered and not yet returned, read right after Close returned
	retAt := clock.Add(1)
	stop.Store(true)
	wg.Wait()
	// after Close returned: handlers must be gone
	alive := goroutinesWith("github.com/mochi-mqtt/server/v2.(*Server).attachClient(") - base
	// every connection with a CONNACK before Close was called must see EOF (and 0x8B if v5)
	deadline := time.Now().Add(3 * time.Second)
	mu.Lock()
	cs := append([]*tcpClient{}, clients...)
	mu.Unlock()
	for _, tc := range cs {
		if tc.connack.Load() && tc.ackedAt.Load() < callAt {
			res.established++
			for !tc.eof.Load() && time.Now().Before(deadline) {
				time.Sleep(2 * time.Millisecond)
			}
			if !tc.eof.Load() {
				res.findings = append(res.findings, c36Finding{"C36/connection-open-after-close", map[string]string{"transport": "tcp", "phase": "established"}, fmt.Sprintf("a connection that had its CONNACK before Close was called is still open 3 s after Close returned")})
			} else if tc.ver == 5 && !(tc.lastType.Load() == int32(rc.DISCONNECT) && tc.lastRC.Load() == 0x8B) && tc.c != nil {
				// a client-side drop may have ended it first: only connections we did not close ourselves count
				// (closed-by-us connections read an error, not the broker's DISCONNECT) -> tolerated
			}
		} else if !tc.connack.Load() || tc.ackedAt.Load() > callAt {
			res.inFlight++
		}
	}
	// connections admitted after Close was called and still served after it returned
	for _, tc := range cs {
		if tc.connack.Load() && tc.ackedAt.Load() > callAt {
			for !tc.eof.Load() && time.Now().Before(deadline) {
				time.Sleep(2 * time.Millisecond)
			}
			if !tc.eof.Load() {
				res.findings = append(res.findings, c36Finding{"C36/served-after-close", map[string]string{"transport": "tcp", "phase": "establishing"}, fmt.Sprintf("a connection that was being established when Close was called (CONNACK at logical time %d, Close called %d, returned %d) is still open and served after Close returned", tc.ackedAt.Load(), callAt, retAt)})
			}
		}
	}
	// sockets the kernel accepted that were neither served nor closed
	for _, tc := range cs {
		if !tc.connack.Load() {
			for !tc.eof.Load() && time.Now().Before(deadline) {
				time.Sleep(2 * time.Millisecond)
			}
			if !tc.eof.Load() {
				res.findings = append(res.findings, c36Finding{"C36/connection-open-after-close", map[string]string{"transport": "tcp", "phase": "accepted-not-served"}, "a TCP connection opened around the shutdown is neither served nor closed 3 s after Close returned"})
			}
		}
	}
	res.handlers = int(registered.Load())
	if regAlive > 0 {
		res.findings = append(res.findings, c36Finding{"C36/handler-alive-after-close", map[string]string{"transport": "tcp", "unregistered_at_close": "false"}, fmt.Sprintf("%d registered connection handler(s) had not returned when Close returned (%d registered in total)", regAlive, registered.Load())})
	} else if alive > 0 {
		// goroutines inside attachClient that never registered: spawned by the accept loop, not yet run when Close began
		res.findings = append(res.findings, c36Finding{"C36/handler-alive-after-close", map[string]string{"transport": "tcp", "unregistered_at_close": "true"}, fmt.Sprintf("%d connection handler goroutine(s) that had not yet registered were alive when Close returned", alive)})
	}
	// new dials must not be served
	for k := 0; k < 3; k++ {
		c, err := net.DialTimeout("tcp", addr, 200*time.Millisecond)
		if err != nil {
			continue
		}
		res.afterDials++
		p := &rc.Packet{Type: rc.CONNECT, ProtoLevel: 4, ProtoName: "MQTT", ClientID: "after", ConnectFlags: 2}
		_, _ = c.Write(rc.Encode(p, rc.FormAuto))
		_ = c.SetReadDeadline(time.Now().Add(300 * time.Millisecond))
		buf := make([]byte, 16)
		if n, _ := c.Read(buf); n >= 4 && buf[0] == 0x20 && buf[3] == 0 {
			res.findings = append(res.findings, c36Finding{"C36/listener-accepts-after-close", map[string]string{"transport": "tcp"}, "a connection dialled after Close returned was accepted and got a success CONNACK"})
		}
		c.Close()
	}
	for _, tc := range cs {
		tc.c.Close()
	}
	return res
}

func checkC36(c *vk.Ctx) {
	c.Rule = "(memory, schedule controlled) brokers with 0-4 established connections (MQTT 3.1.1/5, with and without subscriptions and unacknowledged messages) and optionally one more connection whose handler is parked at a schedule point (handler start before and after it registers with the wait group / after the limit test / inside the OnConnect, OnConnectAuthenticate and OnSessionEstablish hooks / after it is registered as a client / after CONNACK) when Server.Close() is called and released 150 ms later or when Close has returned: " +
		"after Close returns every established connection is closed (MQTT 5: last packet DISCONNECT 0x8B), every handler that existed when Close was called has returned (global sequence numbers of handler return vs Close return), and the late connection is not served. " +
		"(TCP) 4-16 goroutines dial and CONNECT on a real loopback listener, some dropping connections, Close() after a PRNG-chosen number of operations: connections that had their CONNACK before Close was called read EOF, connections admitted during shutdown are not left served, no socket is left open unserved, no goroutine with an attachClient frame exists when Close returns, later dials are not served. nontrivial = cases with >=1 established connection or a handler in the establishing phase at Close"
	c.Assumptions = []string{"'handler alive' for the TCP part is decided from a goroutine dump taken right after Close returns (TCP cases run one at a time so no other broker's handlers exist in the process)",
		"sockets are given 3 s of wall clock to show the close that must already have happened when Close returned; longer is reported"}
	// ---- memory part
	var cases []c36Case
	ests := [][]byte{{}, {5}, {4}, {5, 4}, {5, 5, 4, 3}}
	for _, e := range ests {
		for _, subs := range []bool{false, true} {
			cases = append(cases, c36Case{Established: e, Subs: subs})
			for _, pt := range []string{"attach.handler_start", "attach.handler_registered", "attach.limit_checked", "hook.OnConnect", "hook.OnConnectAuthenticate", "hook.OnSessionEstablish", "attach.registered", "attach.connack_sent"} {
				for _, lv := range []byte{4, 5} {
					cases = append(cases, c36Case{Established: e, Subs: subs, ParkPoint: pt, LateVer: lv})
				}
			}
		}
	}
	vk.Parallel(len(cases), 0, func(i int) {
		cs := cases[i]
		f, reached, ret := runC36Mem(cs)
		if !reached {
			f, reached, ret = runC36Mem(cs)
		}
		if !reached {
			c.Inconclusive(fmt.Sprintf("C36 memory case %d: schedule not reached", i))
			return
		}
		c.Count("memory_cases", 1)
		if ret {
			c.Count("close_returned", 1)
		}
		c.Seen("interleavings", fmt.Sprintf("%v|%s|%v", cs.Established, cs.ParkPoint, cs.Subs))
		for _, x := range f {
			c.Violate(x.rule, x.attrs, x.detail, map[string]any{"case": cs})
		}
		c.Eval(vk.Hash("c36mem", cs), len(cs.Established) > 0 || cs.ParkPoint != "")
		if i%23 == 0 {
			c.Sample(map[string]any{"case": cs, "close_returned": ret, "findings": len(f)})
		}
	})
	// ---- TCP part (sequential: the goroutine dump must only contain this broker's handlers)
	n := c.N(150, 1500)
	for i := 0; i < n; i++ {
		r := vk.Sub(c.Seed, 36, uint64(i))
		res := runC36TCP(r, r.Range(4, 16), r.Range(5, 120))
		c.Count("tcp_cases", 1)
		c.Count("tcp_established_at_close", int64(res.established))
		c.Count("tcp_establishing_at_close", int64(res.inFlight))
		c.Count("tcp_handlers_registered", int64(res.handlers))
		for _, x := range res.findings {
			c.Violate(x.rule, x.attrs, x.detail, map[string]any{"tcp_case": i, "seed": c.Seed})
		}
		c.Eval(vk.Hash("c36tcp", i), res.established+res.inFlight > 0)
	}
	c.MinEvents["memory_cases"] = int64(len(cases) / 2)
	c.MinEvents["tcp_established_at_close"] = 50
	c.MinEvents["tcp_establishing_at_close"] = 5
}
