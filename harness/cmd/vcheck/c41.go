package main

import (
	"bytes"
	"encoding/binary"
	"fmt"
	"runtime"
	"sync"
	"sync/atomic"

	"github.com/mochi-mqtt/server/v2/mempool"

	rc "verif/harness/refcodec"
	"verif/harness/vk"
)

func init() { register("C41", "exploration", checkC41) }

// poolMon is the monitor's shadow state of one pool: the set of buffers currently held by a
// user (keyed by pointer, updated before first use / after last use, so the monitor itself is
// race free) and what it has seen.
type poolMon struct {
	name string
	max  int
	held sync.Map // *bytes.Buffer -> holder id
	seen sync.Map // *bytes.Buffer -> struct{} (ever handed out)

	gets, reuses, dirty, shared, overcap, corrupted, bigPuts atomic.Int64
	maxCapSeen                                               atomic.Int64
}

func (m *poolMon) get(p mempool.BufferPool, holder uint64) (*bytes.Buffer, string, string) {
	b := p.Get()
	m.gets.Add(1)
	if _, was := m.seen.LoadOrStore(b, struct{}{}); was {
		m.reuses.Add(1)
	}
	if prev, loaded := m.held.LoadOrStore(b, holder); loaded {
		m.shared.Add(1)
		return b, "C41/buffer-shared", fmt.Sprintf("buffer %p handed to holder %x while holder %x still has it", b, holder, prev)
	}
	if b.Len() != 0 {
		m.dirty.Add(1)
		return b, "C41/dirty-buffer", fmt.Sprintf("Get() returned a buffer holding %d bytes", b.Len())
	}
	if c := int64(b.Cap()); c > m.maxCapSeen.Load() {
		m.maxCapSeen.Store(c)
	}
	if m.max > 0 && b.Cap() > m.max {
		m.overcap.Add(1)
		return b, "C41/capacity-exceeds-cap", fmt.Sprintf("capped pool (max %d) returned a buffer of capacity %d", m.max, b.Cap())
	}
	return b, "", ""
}

func (m *poolMon) put(p mempool.BufferPool, b *bytes.Buffer) {
	if m.max > 0 && b.Cap() > m.max {
		m.bigPuts.Add(1)
	}
	m.held.Delete(b)
	p.Put(b)
}

func pattern(holder uint64, n int) []byte {
	out := make([]byte, n)
	var w [8]byte
	for i := 0; i < n; i += 8 {
		binary.LittleEndian.PutUint64(w[:], holder^uint64(i)*0x9E3779B97F4A7C15)
		copy(out[i:], w[:])
	}
	return out
}

func checkC41(c *vk.Ctx) {
	c.Rule = "16-64 goroutines run get / write 0..4*max bytes (private pattern = holder id x offset) / re-read with yields / put cycles (in 30% of them holding two buffers at once) on NewBuffer(0), NewBuffer(64|256|4096) and the package-level pool, with runtime.GC() interleaved (sync.Pool eviction) and some buffers put twice-sized: " +
		"every Get must return an empty buffer that no other user currently holds (monitor's held-set keyed by pointer), whose private pattern is intact at Put, and a capped pool never returns capacity > max. " +
		"Second part: the pool's real users - 16 goroutines encode generated packets of every type with the broker's encoder concurrently (pooled scratch buffers) and each result must equal the bytes of a sequential encoding. nontrivial = pool configurations in which buffers were observed being recycled"
	c.Assumptions = []string{"sync.Pool itself is trusted; what is monitored is how mempool and its callers use it"}
	type cfg struct {
		name string
		max  int
		pool mempool.BufferPool
	}
	cfgs := []cfg{{"NewBuffer(0)", 0, mempool.NewBuffer(0)}, {"NewBuffer(64)", 64, mempool.NewBuffer(64)}, {"NewBuffer(256)", 256, mempool.NewBuffer(256)}, {"NewBuffer(4096)", 4096, mempool.NewBuffer(4096)}, {"package-level", 0, nil}}
	iters := c.N(100000, 1000000)
	for ci, cf := range cfgs {
		m := &poolMon{name: cf.name, max: cf.max}
		var pool mempool.BufferPool = cf.pool
		if pool == nil {
			pool = pkgPool{}
		}
		workers := []int{16, 64}[ci%2]
		var wg sync.WaitGroup
		var firstViol atomic.Bool
		for g := 0; g < workers; g++ {
			wg.Add(1)
			go func(g int) {
				defer wg.Done()
				r := vk.Sub(c.Seed, 41, uint64(ci), uint64(g))
				lim := cf.max
				if lim == 0 {
					lim = 512
				}
				for i := 0; i < iters/workers && !firstViol.Load(); i++ {
					holder := uint64(ci)<<48 | uint64(g)<<32 | uint64(i)
					b, rule, bad := m.get(pool, holder)
					if bad != "" {
						if firstViol.CompareAndSwap(false, true) {
							c.Violate(rule, map[string]string{"pool": cf.name}, bad, map[string]any{"pool": cf.name, "goroutines": workers, "iteration": i, "seed": c.Seed})
						}
						m.held.Delete(b)
						b.Reset()
					}
					n := r.Intn(4*lim + 1)
					if r.Chance(50) {
						n = r.Intn(lim/2 + 1)
					}
					pat := pattern(holder, n)
					b.Write(pat[:n/2])
					if r.Chance(30) {
						runtime.Gosched()
					}
					b.Write(pat[n/2:])
					if r.Chance(10) {
						runtime.Gosched()
					}
					if !bytes.Equal(b.Bytes(), pat) {
						m.corrupted.Add(1)
						if firstViol.CompareAndSwap(false, true) {
							c.Violate("C41/buffer-shared", map[string]string{"pool": cf.name, "symptom": "content-altered"}, fmt.Sprintf("holder %x: the %d bytes it wrote to its buffer were altered before Put", holder, n), map[string]any{"pool": cf.name, "iteration": i})
						}
					}
					if r.Chance(30) {
						// hold a second buffer for a moment: two Puts in a row push one of them out of the pool's
						// per-processor slot to where other goroutines take it from
						h2 := holder | 1<<63
						b2, rule2, bad2 := m.get(pool, h2)
						if bad2 != "" {
							if firstViol.CompareAndSwap(false, true) {
								c.Violate(rule2, map[string]string{"pool": cf.name}, bad2, map[string]any{"pool": cf.name, "goroutines": workers, "iteration": i, "seed": c.Seed})
							}
							m.held.Delete(b2)
							b2.Reset()
						}
						p2 := pattern(h2, 1+r.Intn(lim/2+1))
						b2.Write(p2)
						if r.Chance(30) {
							runtime.Gosched()
						}
						if !bytes.Equal(b2.Bytes(), p2) || !bytes.Equal(b.Bytes(), pat) {
							m.corrupted.Add(1)
							if firstViol.CompareAndSwap(false, true) {
								c.Violate("C41/buffer-shared", map[string]string{"pool": cf.name, "symptom": "content-altered"}, fmt.Sprintf("holder %x: what it wrote to one of its two buffers was altered before Put", holder), map[string]any{"pool": cf.name, "iteration": i})
							}
						}
						m.put(pool, b2)
					}
					m.put(pool, b)
					if g == 0 && i%5000 == 4999 {
						runtime.GC()
					}
				}
			}(g)
		}
		wg.Wait()
		c.Count("gets", m.gets.Load())
		c.Count("recycled_gets", m.reuses.Load())
		c.Count("puts_over_cap", m.bigPuts.Load())
		c.Eval(vk.Hash("c41", cf.name), m.reuses.Load() > 0)
		c.Sample(map[string]any{"pool": cf.name, "goroutines": workers, "gets": m.gets.Load(), "recycled_gets": m.reuses.Load(), "max_capacity_returned": m.maxCapSeen.Load(), "puts_of_over_cap_buffers": m.bigPuts.Load(),
			"dirty": m.dirty.Load(), "shared": m.shared.Load(), "over_cap": m.overcap.Load(), "content_altered": m.corrupted.Load()})
	}
	c.MinEvents["recycled_gets"] = 1000
	c.MinEvents["puts_over_cap"] = 100

	// ---- real users of the package-level pool: concurrent encoders
	type enc struct {
		name string
		pk   *rc.Packet
		want []byte
	}
	var encs []enc
	r := vk.Sub(c.Seed, 41, 99)
	for t := byte(1); t <= 15; t++ {
		for _, v := range allVersions {
			if t == rc.AUTH && v != 5 {
				continue
			}
			for k := 0; k < c.N(6, 40); k++ {
				p := rc.GenPacket(r, t, v)
				b, err := mochiEncode(toMochi(p))
				if err != nil || len(b) > 20000 {
					continue
				}
				encs = append(encs, enc{fmt.Sprintf("%s/v%d", rc.TypeNames[t], v), p, b})
			}
		}
	}
	var mism atomic.Int64
	var done atomic.Int64
	rounds := c.N(30, 300)
	vk.Parallel(16, 16, func(g int) {
		rr := vk.Sub(c.Seed, 41, 100, uint64(g))
		for k := 0; k < rounds*len(encs)/16; k++ {
			e := encs[rr.Intn(len(encs))]
			b, err := mochiEncode(toMochi(e.pk))
			done.Add(1)
			if err != nil || !bytes.Equal(b, e.want) {
				if mism.Add(1) == 1 {
					c.Violate("C41/buffer-shared", map[string]string{"pool": "package-level", "symptom": "concurrent-encode-differs"}, fmt.Sprintf("%s encoded concurrently differs from its sequential encoding (err=%v, %d vs %d bytes)", e.name, err, len(b), len(e.want)), map[string]any{"packet": e.pk.String()})
				}
			}
		}
	})
	c.Count("concurrent_encodes", done.Load())
	c.Eval(vk.Hash("c41-encoders", len(encs)), done.Load() > 0)
	c.MinEvents["concurrent_encodes"] = 1000
}

type pkgPool struct{}

func (pkgPool) Get() *bytes.Buffer  { return mempool.GetBuffer() }
func (pkgPool) Put(x *bytes.Buffer) { mempool.PutBuffer(x) }
