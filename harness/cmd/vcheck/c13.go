package main

import (
	"fmt"
	"time"

	mqtt "github.com/mochi-mqtt/server/v2"
	"github.com/mochi-mqtt/server/v2/hooks/auth"

	"verif/harness/eng"
	rc "verif/harness/refcodec"
	"verif/harness/vk"
)

func init() { register("C13", "exploration", checkC13) }

type connVariant struct {
	Name  string `json:"proto_name"`
	Level byte   `json:"level"`
	Flags byte   `json:"flags"`
	Will  bool   `json:"will_fields"`
	User  bool   `json:"user_field"`
	Pass  bool   `json:"pass_field"`
	Empty bool   `json:"empty_id"`
	ID    string `json:"id"`
}

// validity of a CONNECT per the rules the broker is required to enforce (MQTT 3.1.1 / 5 section 3.1)
func (v connVariant) classify() (wellFormed bool, valid bool, why string) {
	f := v.Flags
	willFlag, userFlag, passFlag := f&4 != 0, f&0x80 != 0, f&0x40 != 0
	// the body must contain exactly the fields the flags announce, else the packet is malformed. What counts is what
	// is on the wire: a parser that follows the flags must consume the payload exactly (a variant that sets the user
	// name flag and writes only the "password" string is a well-formed CONNECT whose user name is that string)
	if _, _, ok := v.effective(); !ok {
		return false, false, "fields-do-not-match-flags"
	}
	switch {
	case v.Name != "MQTT" && v.Name != "MQIsdp":
		return true, false, "protocol-name"
	case v.Name == "MQIsdp" && v.Level != 3, v.Name == "MQTT" && v.Level != 4 && v.Level != 5:
		return true, false, "protocol-level"
	case f&1 != 0:
		return true, false, "reserved-flag-bit"
	case willFlag && f>>3&3 == 3:
		return true, false, "will-qos-3"
	case !willFlag && f&0x20 != 0:
		return true, false, "will-retain-without-will-flag"
	case !willFlag && f>>3&3 != 0:
		return true, false, "will-qos-without-will-flag"
	case v.Level < 5 && passFlag && !userFlag:
		return true, false, "password-without-username-v3"
	case v.Level < 5 && v.Empty && f&2 == 0:
		return true, false, "v3-empty-id-clean-0"
	}
	return true, true, ""
}

// effective parses the payload that bytes() writes after the client id the way the flags prescribe and returns the user
// name and password a broker must see; ok is false when the payload does not fit the flags.
func (v connVariant) effective() (user, pass *string, ok bool) {
	var tail []byte
	put := func(b string) { tail = append(tail, byte(len(b)>>8), byte(len(b))); tail = append(tail, b...) }
	if v.Will {
		if v.Level == 5 {
			tail = append(tail, 0)
		}
		put("will/c13")
		put("WILL")
	}
	if v.User {
		put("alice")
	}
	if v.Pass {
		put("secret")
	}
	str := func() (string, bool) {
		if len(tail) < 2 {
			return "", false
		}
		n := int(tail[0])<<8 | int(tail[1])
		if len(tail) < 2+n {
			return "", false
		}
		x := string(tail[2 : 2+n])
		tail = tail[2+n:]
		return x, true
	}
	f := v.Flags
	if f&4 != 0 {
		if v.Level == 5 {
			// will properties: only the empty block written by bytes() is recognised here
			if len(tail) < 1 || tail[0] != 0 {
				return nil, nil, false
			}
			tail = tail[1:]
		}
		for i := 0; i < 2; i++ {
			if _, ok := str(); !ok {
				return nil, nil, false
			}
		}
	}
	if f&0x80 != 0 {
		x, ok := str()
		if !ok {
			return nil, nil, false
		}
		user = &x
	}
	if f&0x40 != 0 {
		x, ok := str()
		if !ok {
			return nil, nil, false
		}
		pass = &x
	}
	return user, pass, len(tail) == 0
}

func (v connVariant) bytes() []byte {
	p := &rc.Packet{Type: rc.CONNECT, ProtoName: v.Name, ProtoLevel: v.Level, ConnectFlags: v.Flags, KeepAlive: 30, ClientID: v.ID}
	if v.Empty {
		p.ClientID = ""
	}
	// rc.Encode writes fields according to the flags; to produce flag/field mismatches assemble by hand
	body := []byte{}
	put := func(b []byte) { body = append(body, byte(len(b)>>8), byte(len(b))); body = append(body, b...) }
	put([]byte(v.Name))
	body = append(body, v.Level, v.Flags, 0, 30)
	if v.Level == 5 {
		body = append(body, 0)
	}
	put([]byte(p.ClientID))
	if v.Will {
		if v.Level == 5 {
			body = append(body, 0)
		}
		put([]byte("will/c13"))
		put([]byte("WILL"))
	}
	if v.User {
		put([]byte("alice"))
	}
	if v.Pass {
		put([]byte("secret"))
	}
	return rc.Frame(0x10, body)
}

type c13Hooks struct {
	name    string
	opts    func() eng.Options
	allowed func(v connVariant) bool // would an installed authentication hook allow this client?
}

func c13HookConfigs() []c13Hooks {
	ledger := func() *auth.Ledger {
		return &auth.Ledger{Auth: auth.AuthRules{{Username: "alice", Password: "secret", Allow: true}, {Client: "c13-ok*", Allow: true}}}
	}
	return []c13Hooks{
		{"allow-all", func() eng.Options { return eng.Options{} }, func(connVariant) bool { return true }},
		{"none", func() eng.Options { return eng.Options{NoAuthHook: true} }, func(connVariant) bool { return false }},
		{"ledger", func() eng.Options {
			return eng.Options{NoAuthHook: true, ExtraHooks: []eng.HookSpec{{Hook: new(auth.Hook), Config: &auth.Options{Ledger: ledger()}}}}
		}, func(v connVariant) bool {
			u, p, _ := v.effective()
			return (u != nil && p != nil && *u == "alice" && *p == "secret") || (!v.Empty && len(v.ID) > 6 && v.ID[:6] == "c13-ok")
		}},
		{"deny-then-allow", func() eng.Options {
			return eng.Options{AuthDeny: func(string) bool { return true }, ExtraHooks: []eng.HookSpec{{Hook: new(auth.AllowHook)}}}
		}, func(connVariant) bool { return true }},
	}
}

func checkC13(c *vk.Ctx) {
	c.Rule = "CONNECT variants = protocol name {MQTT,MQIsdp,MQTX,''} x level {3,4,5,6} x connect-flags byte (all 256 values) x {will fields, username, password present/absent} x {empty client id} (quick: PRNG sample, thorough: the full product for fields matching the flags plus sampled mismatches), and non-CONNECT first packets of every type, " +
		"under hook configurations {allow-all, no auth hook, ledger, deny+allow stack}. Per connection: the first broker packet is CONNACK, sent once, nothing before it; success only if the CONNECT is valid and an auth hook allows; an invalid first packet yields no session (probe: later clean-start-0 CONNECT sees session present 0) and the connection is closed after at most one failure CONNACK. " +
		"Schedule part: a resuming connection is parked between session registration and CONNACK while another client publishes to its subscriptions. nontrivial = distinct (variant, hook config) executed"
	c.Assumptions = []string{"validity rules used: protocol name/level, reserved flag bit, will QoS/retain consistency with the will flag, MQTT 3 password-without-username, MQTT 3 empty id with clean session 0; other CONNECT fields are kept well-formed"}

	// ---- variants
	var vars []connVariant
	names := []string{"MQTT", "MQIsdp", "MQTX", ""}
	levels := []byte{3, 4, 5, 6}
	idn := 0
	mk := func(n string, l byte, f byte, will, user, pass, empty bool) connVariant {
		idn++
		id := fmt.Sprintf("c13-%d", idn)
		if idn%3 == 0 {
			id = fmt.Sprintf("c13-ok%d", idn)
		}
		return connVariant{Name: n, Level: l, Flags: f, Will: will, User: user, Pass: pass, Empty: empty, ID: id}
	}
	for _, n := range names {
		for _, l := range levels {
			for f := 0; f < 256; f++ {
				fb := byte(f)
				for _, empty := range []bool{false, true} {
					// fields matching the flags
					vars = append(vars, mk(n, l, fb, fb&4 != 0, fb&0x80 != 0, fb&0x40 != 0, empty))
				}
			}
		}
	}
	r := vk.Sub(c.Seed, 13)
	// mismatching field sets (malformed)
	for i := 0; i < 600; i++ {
		vars = append(vars, mk(vk.Pick(r, names[:2]), vk.Pick(r, levels[:3]), byte(r.Intn(256)), r.Bool(), r.Bool(), r.Bool(), r.Chance(20)))
	}
	if c.Quick() {
		// sample: all flag bytes for the two real protocols at their levels with non-empty id, plus a PRNG sample of the rest
		var s []connVariant
		for _, v := range vars {
			if (v.Name == "MQTT" && (v.Level == 4 || v.Level == 5) || v.Name == "MQIsdp" && v.Level == 3) && !v.Empty && v.Will == (v.Flags&4 != 0) && v.User == (v.Flags&0x80 != 0) && v.Pass == (v.Flags&0x40 != 0) {
				if v.Flags%3 == 0 || v.Flags < 8 {
					s = append(s, v)
				}
			} else if r.Chance(6) {
				s = append(s, v)
			}
		}
		vars = s
	}
	hooks := c13HookConfigs()
	c.Extra("connect_variants", len(vars))
	vk.Parallel(len(vars), 0, func(i int) {
		v := vars[i]
		hk := hooks[i%len(hooks)]
		if !c.Quick() {
			hk = hooks[(i/7)%len(hooks)]
		}
		c13Variant(c, v, hk)
	})
	// every hook config with the plain valid CONNECT of each version
	for _, hk := range hooks {
		for _, l := range []byte{3, 4, 5} {
			n := "MQTT"
			if l == 3 {
				n = "MQIsdp"
			}
			c13Variant(c, mk(n, l, 2, false, false, false, false), hk)
			c13Variant(c, mk(n, l, 0xC2, false, true, true, false), hk)
		}
	}
	// ---- non-CONNECT first packets
	for t := byte(2); t <= 15; t++ {
		for _, ver := range []byte{4, 5} {
			b := eng.NewBroker(eng.Options{})
			cl := b.Attach()
			cl.Version = ver
			p := rc.GenPacket(vk.Sub(c.Seed, 1300, uint64(t), uint64(ver)), t, ver)
			cl.SendRaw(rc.Encode(p, rc.FormAuto))
			b.Quiesce(10 * time.Second)
			pk := cl.Drain()
			closed, _ := cl.MC.BrokerClosed()
			if len(pk) > 0 || cl.Pending() > 0 {
				c.Violate("C13/output-before-connect", map[string]string{"first": rc.TypeNames[t]}, fmt.Sprintf("first packet %s: broker wrote %d packets (%d stray bytes)", rc.TypeNames[t], len(pk), cl.Pending()), nil)
			}
			if !closed && !cl.Done() {
				c.Violate("C13/not-closed-after-invalid-first-packet", map[string]string{"first": rc.TypeNames[t]}, fmt.Sprintf("first packet %s: connection stays open", rc.TypeNames[t]), nil)
			}
			c.Eval(vk.Hash("c13first", t, ver), true)
			c.Count("non_connect_first_packets", 1)
			b.Shutdown()
		}
	}
	c13Schedule(c)
	c.MinEvents["connects_valid_allowed"] = 50
	c.MinEvents["connects_invalid"] = 200
}

func c13Variant(c *vk.Ctx, v connVariant, hk c13Hooks) {
	b := eng.NewBroker(hk.opts())
	defer b.Shutdown()
	cl := b.Attach()
	dv := v.Level
	if dv != 3 && dv != 4 && dv != 5 {
		dv = 4
	}
	cl.Version = dv
	cl.SendRaw(v.bytes())
	if !b.Quiesce(10 * time.Second) {
		c.Inconclusive("c13 quiescence")
		return
	}
	pk := cl.Drain()
	wf, valid, why := v.classify()
	allowed := hk.allowed(v)
	attrs := map[string]string{"hooks": hk.name, "why_invalid": why, "level": fmt.Sprint(v.Level), "well_formed": fmt.Sprint(wf)}
	wit := map[string]any{"variant": v, "hooks": hk.name, "wire": fmt.Sprintf("% x", v.bytes())}
	nca, success := 0, false
	for i, rp := range pk {
		if rp.P.Type == rc.CONNACK {
			nca++
			if rp.P.Reason == 0 {
				success = true
			}
			if i != 0 {
				c.Violate("C13/connack-not-first", attrs, "CONNACK is packet #"+fmt.Sprint(i+1), wit)
			}
		} else if i == 0 {
			c.Violate("C13/first-packet-not-connack", attrs, "first packet "+rp.P.String(), wit)
		}
	}
	if cl.DecErr != nil && (v.Level == 3 || v.Level == 4 || v.Level == 5) {
		c.Count("foreign_rule/C23/undecodable-output", 1)
	}
	if nca > 1 {
		c.Violate("C13/second-connack", attrs, fmt.Sprintf("%d CONNACK packets", nca), wit)
	}
	closed, _ := cl.MC.BrokerClosed()
	closed = closed || cl.Done()
	switch {
	case valid && allowed:
		c.Count("connects_valid_allowed", 1)
		if !success {
			c.Violate("C13/valid-connect-refused", attrs, fmt.Sprintf("valid CONNECT refused although an authentication hook allows it (%d packets)", len(pk)), wit)
		}
	case valid && !allowed:
		c.Count("connects_valid_not_allowed", 1)
		if success {
			c.Violate("C13/admitted-without-authentication", attrs, "success CONNACK although no authentication hook allows the client", wit)
		}
		if !closed {
			c.Violate("C13/not-closed-after-refusal", attrs, "connection stays open after refusal", wit)
		}
	default:
		c.Count("connects_invalid", 1)
		if success {
			c.Violate("C13/invalid-connect-admitted", attrs, "success CONNACK for a CONNECT that violates the protocol ("+why+")", wit)
		} else if !closed {
			c.Violate("C13/not-closed-after-invalid-connect", attrs, "connection stays open after invalid CONNECT ("+why+")", wit)
		}
		// no session may exist: a later clean-start-0 connection must not see one
		if !v.Empty && !success && hk.name == "allow-all" {
			d, r2 := dConnect(b, 4, v.ID, false, nil, nil)
			if ca := hasType(r2, rc.CONNACK); ca != nil && ca.SessionPresent {
				c.Violate("C13/session-after-invalid-connect", attrs, "a session exists after the invalid CONNECT ("+why+")", wit)
			}
			_ = d
		}
	}
	c.Eval(vk.Hash("c13", v, hk.name), true)
}

// c13Schedule: a resuming session is parked after Clients.Add and before SendConnack while a publish
// to its subscription arrives: nothing may reach the client before the CONNACK.
func c13Schedule(c *vk.Ctx) {
	for _, point := range []string{"attach.registered", "attach.connack_sent", ""} {
		for _, q := range []byte{0, 1} {
			b := eng.NewBroker(eng.Options{})
			ctl := b.EnableControl()
			pub, _ := dConnect(b, 4, "pub", true, nil, nil)
			s1, _ := dConnect(b, 5, "res", true, rc.Props{{ID: rc.PSessionExpiry, Num: 300}}, nil)
			s1.send(subscribePkt(1, "t/#", 1))
			s1.MC.CloseByClient()
			b.Quiesce(5 * time.Second)
			if point != "" {
				ctl.ParkAt(point, "res")
			}
			nw := b.Attach()
			nw.Version = 5
			nw.Send(&rc.Packet{Type: rc.CONNECT, ProtoLevel: 5, ProtoName: "MQTT", ClientID: "res", Props: rc.Props{{ID: rc.PSessionExpiry, Num: 300}}}, rc.FormAuto)
			ok := true
			if point != "" {
				ok = ctl.WaitParked(point, "res", 1, 5*time.Second)
			} else {
				b.Quiesce(5 * time.Second)
			}
			pub.send(publishPkt("t/x", q, 7, "P1", false))
			if point != "" {
				b.StableFor(2*time.Millisecond, 2*time.Second)
				ctl.Release(point, "res")
			}
			b.Quiesce(5 * time.Second)
			pk := nw.Drain()
			name := fmt.Sprintf("park@%s/q%d", point, q)
			c.Seen("interleavings", name)
			c.Count("schedule_cases", 1)
			c.Eval(vk.Hash("c13sched", name), true)
			if !ok {
				c.Inconclusive("c13 schedule " + name)
			} else if len(pk) == 0 || pk[0].P.Type != rc.CONNACK {
				first := "nothing"
				if len(pk) > 0 {
					first = pk[0].P.String()
				}
				c.Violate("C13/publish-before-connack", map[string]string{"parked_at": point, "resumed_session": "true"},
					fmt.Sprintf("schedule %s: first packet on the resuming connection is %s (a publish to its inherited subscription overtook the CONNACK)", name, first), map[string]any{"schedule": name, "points": ctl.Trace()})
			}
			b.DisableControl()
			b.Shutdown()
		}
	}
	_ = mqtt.Version
}
