package main

import (
	"fmt"
	"time"

	"verif/harness/eng"
	rc "verif/harness/refcodec"
	"verif/harness/vk"
)

// c14Schedules enumerates orders of a superseded connection's cleanup and the new connection's
// establishment when the old session ends at disconnect (MQTT 3 clean session / expiry 0).
// After the takeover the new connection subscribes; a publish must reach it, the old connection
// must be silent after its DISCONNECT, and a later clean-start-0 reconnect must find the session.
func c14Schedules(c *vk.Ctx) {
	type sched struct {
		name    string
		oldVer  byte
		lateOld bool // old handler's cleanup finishes after the new connection registered and subscribed
	}
	cases := []sched{
		{"old-cleanup-first/v4-clean", 4, false},
		{"old-cleanup-last/v4-clean", 4, true},
		{"old-cleanup-first/v5-expiry0", 5, false},
		{"old-cleanup-last/v5-expiry0", 5, true},
	}
	for _, sc := range cases {
		b := eng.NewBroker(eng.Options{})
		ctl := b.EnableControl()
		pub, _ := dConnect(b, 4, "pub", true, nil, nil)
		old, _ := dConnect(b, sc.oldVer, "cx", true, nil, nil) // session ends at disconnect
		old.send(subscribePkt(1, "old/#", 1))
		// new connection: park it right after it disconnected the old one
		ctl.ParkAt("inherit.existing_disconnected", "cx")
		if sc.lateOld {
			ctl.ParkAt("hook.OnUnsubscribed", "cx") // the old handler is held inside its cleanup, after the taken-over test
		}
		nw := b.Attach()
		nw.Version = 5
		nw.Send(&rc.Packet{Type: rc.CONNECT, ProtoLevel: 5, ProtoName: "MQTT", ClientID: "cx", Props: rc.Props{{ID: rc.PSessionExpiry, Num: 300}}}, rc.FormAuto)
		ok := ctl.WaitParked("inherit.existing_disconnected", "cx", 1, 5*time.Second)
		if sc.lateOld {
			// old handler runs into its cleanup and is held there - or skips the cleanup because the session
			// is already marked as taken over (then it simply finishes: the same postconditions apply)
			deadline := time.Now().Add(5 * time.Second)
			held := false
			for time.Now().Before(deadline) && !held && !old.Done() {
				held = ctl.WaitParked("hook.OnUnsubscribed", "cx", 1, 2*time.Millisecond)
			}
			ok = ok && (held || old.Done())
			if !held {
				c.Seen("interleavings", sc.name+"/cleanup-skipped")
			}
		} else {
			deadline := time.Now().Add(5 * time.Second)
			for !old.Done() && time.Now().Before(deadline) {
				time.Sleep(100 * time.Microsecond)
			}
			ok = ok && old.Done()
		}
		// the new handler continues; its own UnsubscribeClient(existing) must not be held
		ctl.Release("inherit.existing_disconnected", "cx")
		if sc.lateOld {
			for i := 0; i < 2000; i++ {
				if ctl.ReleaseConn("hook.OnUnsubscribed", "cx", nw) {
					break
				}
				if hasType(nw.Drain(), rc.CONNACK) != nil {
					break
				}
				time.Sleep(100 * time.Microsecond)
			}
		}
		b.Quiesce(5 * time.Second)
		nd := &dconn{Client: nw, b: b}
		nd.Drain()
		sa := nd.send(subscribePkt(2, "new/#", 1))
		if sc.lateOld {
			ctl.Release("hook.OnUnsubscribed", "cx") // now the superseded handler finishes its cleanup
			b.Quiesce(5 * time.Second)
		}
		if !ok || hasType(sa, rc.SUBACK) == nil {
			c.Inconclusive("c14 schedule " + sc.name + ": schedule not reached")
			b.DisableControl()
			b.Shutdown()
			continue
		}
		pub.send(publishPkt("new/t", 1, 9, "N1", false))
		got := 0
		for _, rp := range nd.wait() {
			if rp.P.Type == rc.PUBLISH && string(rp.P.Payload) == "N1" {
				got++
			}
		}
		// reconnect with clean start 0: the session (expiry 300) must be present
		nw.MC.CloseByClient()
		b.Quiesce(5 * time.Second)
		_, r3 := dConnect(b, 5, "cx", false, rc.Props{{ID: rc.PSessionExpiry, Num: 300}}, nil)
		ca := hasType(r3, rc.CONNACK)
		attrs := map[string]string{"schedule": sc.name, "old_session_ends_at_disconnect": "true", "old_cleanup_after_new_registered": fmt.Sprint(sc.lateOld)}
		if got != 1 {
			c.Violate("C14/live-session-lost-to-late-cleanup", attrs, fmt.Sprintf("schedule %s: the new connection's subscription received %d copies of a matching publish (expected 1)", sc.name, got), map[string]any{"schedule": sc.name, "points": ctl.Trace()})
		} else if ca == nil || !ca.SessionPresent {
			c.Violate("C14/live-session-lost-to-late-cleanup", attrs, fmt.Sprintf("schedule %s: reconnect with clean start 0 finds no session (CONNACK %v)", sc.name, ca), map[string]any{"schedule": sc.name, "points": ctl.Trace()})
		}
		// the old connection must be silent after its DISCONNECT and closed
		oldPk := old.Drain()
		if !old.closed() {
			c.Violate("C14/old-connection-not-closed", attrs, "schedule "+sc.name+": superseded connection still open", nil)
		}
		seenDisc := false
		for _, rp := range oldPk {
			if seenDisc {
				c.Violate("C14/packet-after-takeover-disconnect", attrs, "schedule "+sc.name+": "+rp.P.String()+" after DISCONNECT on the superseded connection", nil)
			}
			if rp.P.Type == rc.DISCONNECT {
				seenDisc = true
			}
		}
		c.Seen("interleavings", sc.name)
		c.Count("schedule_cases", 1)
		c.Eval(vk.Hash("c14sched", sc.name), true)
		b.DisableControl()
		b.Shutdown()
	}
}
