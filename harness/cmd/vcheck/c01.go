package main

import (
	"fmt"
	"sort"
	"strings"
	"sync"

	mqtt "github.com/mochi-mqtt/server/v2"
	"github.com/mochi-mqtt/server/v2/packets"

	"verif/harness/refmatch"
	"verif/harness/vk"
)

func init() { register("C01", "exploration", checkC01) }

var c01FilterLevels = []string{"", "a", "b", "+", "#", "$x", "$SYS"}
var c01TopicLevels = []string{"", "a", "b", "$x", "$SYS"}

func enumLevels(levels []string, maxDepth int) []string {
	var out []string
	var rec func(prefix []string)
	rec = func(prefix []string) {
		if len(prefix) > 0 {
			out = append(out, strings.Join(prefix, "/"))
		}
		if len(prefix) == maxDepth {
			return
		}
		for _, l := range levels {
			rec(append(append([]string{}, prefix...), l))
		}
	}
	rec(nil)
	return out
}

// filterShape describes the structural class of a filter (cause attribute).
func filterShape(f string) string {
	lv := strings.Split(f, "/")
	var sb strings.Builder
	for i, l := range lv {
		if i > 0 {
			sb.WriteByte('/')
		}
		switch {
		case l == "+" || l == "#":
			sb.WriteString(l)
		case l == "":
			sb.WriteByte('0')
		case l[0] == '$':
			sb.WriteByte('$')
		default:
			sb.WriteByte('L')
		}
	}
	return sb.String()
}

type c01Sub struct {
	Kind   string // client | shared | inline
	Client string // client id (client/shared)
	Group  string
	ID     int // inline id
	Filter string
}

func (s c01Sub) full() string {
	if s.Kind == "shared" {
		return "$share/" + s.Group + "/" + s.Filter
	}
	return s.Filter
}

func c01Apply(x *mqtt.TopicsIndex, s c01Sub) {
	switch s.Kind {
	case "inline":
		x.InlineSubscribe(mqtt.InlineSubscription{Subscription: packets.Subscription{Filter: s.Filter, Identifier: s.ID}, Handler: func(*mqtt.Client, packets.Subscription, packets.Packet) {}})
	default:
		x.Subscribe(s.Client, packets.Subscription{Filter: s.full(), Qos: 1})
	}
}

// c01Expected computes the reference selection for a set of subscriptions and a topic.
func c01Expected(subs []c01Sub, topic string) (clients, shared, inline []string) {
	cs, ss, is := map[string]bool{}, map[string]bool{}, map[string]bool{}
	for _, s := range subs {
		if !refmatch.Match(s.Filter, topic) {
			continue
		}
		switch s.Kind {
		case "client":
			cs[s.Client] = true
		case "shared":
			ss[s.full()+"|"+s.Client] = true
		case "inline":
			is[fmt.Sprint(s.ID)] = true
		}
	}
	return keys(cs), keys(ss), keys(is)
}

func keys(m map[string]bool) []string {
	out := make([]string, 0, len(m))
	for k := range m {
		out = append(out, k)
	}
	sort.Strings(out)
	return out
}

func c01Actual(x *mqtt.TopicsIndex, topic string) (clients, shared, inline []string) {
	r := x.Subscribers(topic)
	cs, ss, is := map[string]bool{}, map[string]bool{}, map[string]bool{}
	for c := range r.Subscriptions {
		cs[c] = true
	}
	for f, m := range r.Shared {
		for c := range m {
			ss[f+"|"+c] = true
		}
	}
	for id := range r.InlineSubscriptions {
		is[fmt.Sprint(id)] = true
	}
	return keys(cs), keys(ss), keys(is)
}

func eqStrs(a, b []string) bool {
	if len(a) != len(b) {
		return false
	}
	for i := range a {
		if a[i] != b[i] {
			return false
		}
	}
	return true
}

func checkC01(c *vk.Ctx) {
	depth := c.N(3, 4)
	c.Rule = fmt.Sprintf("(1) every reference-valid filter of depth<=%d over levels %v, as client, $share/g/ and inline subscription, alone in a fresh TopicsIndex x every topic of depth<=%d over %v: Subscribers(topic) selects it iff refmatch.Match; "+
		"(2) PRNG multi-subscription sets (2-12 subs, 3 clients, 2 groups, 3 inline ids, depth<=6) x all those topics + deeper random topics, with concurrent reader goroutines; (3) a sample of sets replayed end-to-end (SUBSCRIBE/PUBLISH over in-memory connections). "+
		"nontrivial = distinct (kind, filter, topic) pairs where the reference says match, plus distinct sets with >=1 expected match", depth, c01FilterLevels, depth, c01TopicLevels)
	c.Assumptions = []string{"refmatch.Match implements MQTT 4.7 matching as restated in C01", "the empty string is not a topic name or filter and is not generated"}
	c.Exhaustive = true

	var filters []string
	for _, f := range enumLevels(c01FilterLevels, depth) {
		if refmatch.ValidFilter(f) && !strings.HasPrefix(f, "$share") {
			filters = append(filters, f)
		}
	}
	var topics []string
	for _, t := range enumLevels(c01TopicLevels, depth) {
		if t != "" {
			topics = append(topics, t)
		}
	}
	c.Extra("filters", len(filters))
	c.Extra("topics", len(topics))

	// ---- (1) singles
	kinds := []string{"client", "shared", "inline"}
	var mu sync.Mutex
	shapes := map[string]int{}
	vk.Parallel(len(filters), 0, func(i int) {
		f := filters[i]
		var hs []uint64
		n := int64(0)
		matches := int64(0)
		for _, kind := range kinds {
			s := c01Sub{Kind: kind, Client: "c1", Group: "g", ID: 7, Filter: f}
			x := mqtt.NewTopicsIndex()
			c01Apply(x, s)
			for _, t := range topics {
				want := refmatch.Match(f, t)
				ac, as, ai := c01Actual(x, t)
				got := len(ac)+len(as)+len(ai) > 0
				n++
				if want {
					matches++
					hs = append(hs, vk.Hash(kind, f, t))
				}
				if want != got {
					rule := "C01/missed-match"
					if got {
						rule = "C01/false-match"
					}
					attrs := map[string]string{"kind": kind, "shape": filterShape(f), "dollar_topic": fmt.Sprint(t[0] == '$')}
					c.Violate(rule, attrs, fmt.Sprintf("%s subscription %q vs topic %q: reference match=%v, Subscribers selected=%v", kind, s.full(), t, want, got),
						map[string]any{"kind": kind, "filter": s.full(), "topic": t})
				}
			}
		}
		c.EvalBulk(n, hs)
		c.Count("pairs_with_expected_match", matches)
		mu.Lock()
		shapes[filterShape(f)]++
		mu.Unlock()
	})
	c.Extra("filter_shapes", len(shapes))

	// ---- (2) random sets
	nsets := c.N(2000, 50000)
	deepLevels := []string{"", "a", "b", "c", "+", "#", "$x", "$SYS"}
	vk.Parallel(nsets, 0, func(i int) {
		r := vk.Sub(c.Seed, 1, uint64(i))
		n := r.Range(2, 12)
		var subs []c01Sub
		for len(subs) < n {
			d := r.Range(1, 6)
			lv := make([]string, d)
			for k := range lv {
				lv[k] = vk.Pick(r, deepLevels)
				if lv[k] == "#" && k != d-1 {
					lv[k] = "+"
				}
			}
			f := strings.Join(lv, "/")
			if !refmatch.ValidFilter(f) || strings.HasPrefix(f, "$share") {
				continue
			}
			s := c01Sub{Kind: vk.Pick(r, kinds), Client: fmt.Sprintf("c%d", r.Range(1, 3)), Group: fmt.Sprintf("g%d", r.Range(1, 2)), ID: r.Range(1, 3), Filter: f}
			subs = append(subs, s)
		}
		// the index keeps one entry per (client, filter) / (group, client, filter) / (inline id, filter): set semantics
		x := mqtt.NewTopicsIndex()
		for _, s := range subs {
			c01Apply(x, s)
		}
		// sometimes remove a few again (exercises trim) and drop them from the expectation
		if r.Chance(40) {
			k := r.Range(1, len(subs)/2+1)
			for j := 0; j < k && len(subs) > 1; j++ {
				idx := r.Intn(len(subs))
				s := subs[idx]
				if s.Kind == "inline" {
					x.InlineUnsubscribe(s.ID, s.Filter)
				} else {
					x.Unsubscribe(s.full(), s.Client)
				}
				// remove every entry equal in identity
				var rest []c01Sub
				for _, o := range subs {
					same := o.Kind == s.Kind && o.Filter == s.Filter && ((s.Kind == "inline" && o.ID == s.ID) || (s.Kind == "client" && o.Client == s.Client) || (s.Kind == "shared" && o.Client == s.Client && o.Group == s.Group))
					if !same {
						rest = append(rest, o)
					}
				}
				subs = rest
			}
		}
		qs := append([]string{}, topics...)
		for k := 0; k < 40; k++ {
			d := r.Range(1, 6)
			lv := make([]string, d)
			for j := range lv {
				lv[j] = vk.Pick(r, []string{"", "a", "b", "c", "$x", "$SYS"})
			}
			if t := strings.Join(lv, "/"); t != "" {
				qs = append(qs, t)
			}
		}
		// concurrent readers over the same index (read-only phase): results must be identical
		var wg sync.WaitGroup
		anyMatch := false
		var am sync.Mutex
		for g := 0; g < 4; g++ {
			wg.Add(1)
			go func(g int) {
				defer wg.Done()
				for qi := g; qi < len(qs); qi += 4 {
					t := qs[qi]
					ec, es, ei := c01Expected(subs, t)
					ac, as, ai := c01Actual(x, t)
					if len(ec)+len(es)+len(ei) > 0 {
						am.Lock()
						anyMatch = true
						am.Unlock()
					}
					if !eqStrs(ec, ac) || !eqStrs(es, as) || !eqStrs(ei, ai) {
						c.Violate("C01/set-mismatch", map[string]string{"clients_equal": fmt.Sprint(eqStrs(ec, ac)), "shared_equal": fmt.Sprint(eqStrs(es, as)), "inline_equal": fmt.Sprint(eqStrs(ei, ai))},
							fmt.Sprintf("topic %q: expected clients=%v shared=%v inline=%v, got clients=%v shared=%v inline=%v", t, ec, es, ei, ac, as, ai),
							map[string]any{"subs": subs, "topic": t})
					}
				}
			}(g)
		}
		wg.Wait()
		c.Eval(vk.Hash("set", i, subs), anyMatch)
		c.Count("set_queries", int64(len(qs)))
		if i < 2 {
			c.Sample(map[string]any{"set": subs, "queried_topics": len(qs)})
		}
	})
	c.Count("sets", int64(nsets))
	c.Sample(map[string]any{"single": "client +/# vs topic a", "reference": refmatch.Match("+/#", "a")})
	c.MinEvents["pairs_with_expected_match"] = 1000

	c01EndToEnd(c)
}
