package main

import (
	"bufio"
	"bytes"
	"encoding/hex"
	"encoding/json"
	"fmt"
	"os"
	"os/exec"
	"path/filepath"
	"strconv"
	"strings"
	"sync"
	"time"

	mqtt "github.com/mochi-mqtt/server/v2"

	"verif/harness/eng"
	rc "verif/harness/refcodec"
	"verif/harness/vk"
)

func init() {
	register("C28", "exploration", checkC28)
	children["hostile"] = childC28
}

// one hostile stream: per connection a list of byte chunks (sent as separate writes)
type hostileStream struct {
	Index int        `json:"index"`
	Conns [][]string `json:"conns"` // hex chunks per connection
	Kind  string     `json:"kind"`
	MPS   uint32     `json:"max_packet_size"`
	// Concurrent: the hostile connections first subscribe to the reference client's topic; their bytes are then sent while
	// the reference client publishes a burst, every connection from a goroutine of its own and without waiting in between
	Concurrent bool `json:"concurrent,omitempty"`
}

func wire(in decInput, r *vk.Rand) []byte {
	n := len(in.Body)
	if r != nil && r.Chance(6) {
		// inconsistent remaining length
		n = vk.Pick(r, []int{0, n + 1, n + 7, n / 2, 127, 128, 16383, 16384})
		if n < 0 {
			n = 0
		}
	}
	out := []byte{in.Hdr}
	out = append(out, rc.EncodeVBI(n)...)
	return append(out, in.Body...)
}

func splitChunks(r *vk.Rand, b []byte) [][]byte {
	if len(b) == 0 {
		return nil
	}
	var out [][]byte
	mode := r.Intn(4)
	for off := 0; off < len(b); {
		k := len(b) - off
		switch mode {
		case 1:
			k = r.Range(1, 3)
		case 2:
			k = r.Range(1, 40)
		case 3:
			if r.Chance(50) {
				k = r.Range(1, len(b)-off)
			}
		}
		if off+k > len(b) {
			k = len(b) - off
		}
		out = append(out, b[off:off+k])
		off += k
	}
	return out
}

func genHostile(seed int64, idx int, seeds []decInput, byVer map[byte][]decInput) hostileStream {
	r := vk.Sub(seed, 28, uint64(idx))
	hs := hostileStream{Index: idx, MPS: uint32(vk.Pick(r, []int{256, 512, 1024, 4096}))}
	nconn := 1
	if r.Chance(30) {
		nconn = r.Range(2, 4)
	}
	kinds := []string{}
	for c := 0; c < nconn; c++ {
		var stream []byte
		ver := vk.Pick(r, allVersions)
		prelude := r.Intn(10)
		switch {
		case prelude < 6: // valid CONNECT
			p := &rc.Packet{Type: rc.CONNECT, ProtoLevel: ver, ProtoName: "MQTT", ClientID: fmt.Sprintf("h%d", r.Intn(4)), ConnectFlags: byte(r.Intn(2)) * 2, KeepAlive: 0}
			if ver == 3 {
				p.ProtoName = "MQIsdp"
			}
			if r.Chance(30) {
				p.ConnectFlags |= 4 | byte(r.Intn(3))<<3
				p.WillTopic, p.WillPayload = vk.Pick(r, []string{"w/t", "ref/t", "$SYS/x", "w/#"}), []byte("W")
			}
			stream = append(stream, rc.Encode(p, rc.FormAuto)...)
			kinds = append(kinds, "valid-connect")
		case prelude < 8: // mutated CONNECT
			var cs []decInput
			for _, s := range seeds {
				if s.Hdr>>4 == rc.CONNECT {
					cs = append(cs, s)
				}
			}
			m := randomMutation(r, cs)
			m.Hdr = 0x10
			stream = append(stream, wire(m, r)...)
			kinds = append(kinds, "mutated-connect")
		default:
			kinds = append(kinds, "no-connect")
		}
		npk := r.Range(1, 12)
		for k := 0; k < npk; k++ {
			pool := byVer[ver]
			if len(pool) == 0 || r.Chance(10) {
				pool = seeds
			}
			switch r.Intn(10) {
			case 0:
				stream = append(stream, r.Bytes(r.Range(1, 24))...)
			case 1, 2, 3:
				stream = append(stream, wire(vk.Pick(r, pool), r)...) // well-formed packet, possibly for another version
			case 4:
				// oversized announcement: header says more than the configured maximum; body withheld or supplied
				n := int(hs.MPS) + r.Range(1, 5000)
				stream = append(stream, byte(vk.Pick(r, []int{0x30, 0x32, 0x82, 0xa2, 0x62}))&0xff)
				stream = append(stream, rc.EncodeVBI(n)...)
				if r.Chance(50) {
					stream = append(stream, bytes.Repeat([]byte{0x41}, vk.Pick(r, []int{1, 50, n}))...)
				}
			default:
				stream = append(stream, wire(randomMutation(r, pool), r)...)
			}
		}
		var hexs []string
		for _, ch := range splitChunks(r, stream) {
			hexs = append(hexs, hex.EncodeToString(ch))
		}
		hs.Conns = append(hs.Conns, hexs)
	}
	hs.Kind = strings.Join(kinds, "+")
	return hs
}

// systematicHostile: the packets a client can place behind a valid CONNECT, cut short at every offset - as they are
// and with the continuation bit set on the last byte that is left (a variable byte integer that runs into the end of
// the packet) - and, in the thorough tier, also with every byte tampered; each becomes a stream of its own because the
// first malformed packet ends a connection.
func systematicHostile(seeds []decInput, tier string) []decInput {
	var out []decInput
	for _, s := range seeds {
		if s.Hdr>>4 == rc.CONNECT || s.Ver == 3 || len(s.Body) > 400 {
			continue
		}
		if s.Src != "seed" && tier != "thorough" {
			continue
		}
		for i := 1; i <= len(s.Body); i++ {
			if i < len(s.Body) {
				out = append(out, decInput{Ver: s.Ver, Hdr: s.Hdr, Body: append([]byte{}, s.Body[:i]...), Src: "trunc"})
			}
			if s.Body[i-1]&0x80 == 0 {
				b := append([]byte{}, s.Body[:i]...)
				b[i-1] |= 0x80
				out = append(out, decInput{Ver: s.Ver, Hdr: s.Hdr, Body: b, Src: "trunc-cont"})
			}
		}
		if tier == "thorough" && s.Src == "seed" {
			systematicMutations(s, func(d decInput) {
				if d.Src == "tamper" {
					out = append(out, d)
				}
			})
		}
	}
	return out
}

func sysStream(idx int, in decInput, r *vk.Rand) hostileStream {
	hs := hostileStream{Index: idx, MPS: 4096, Kind: "valid-connect+" + in.Src}
	p := &rc.Packet{Type: rc.CONNECT, ProtoLevel: in.Ver, ProtoName: "MQTT", ClientID: fmt.Sprintf("h%d", r.Intn(4)), ConnectFlags: 2}
	stream := append(rc.Encode(p, rc.FormAuto), wire(in, nil)...)
	var hexs []string
	for _, ch := range splitChunks(r, stream) {
		hexs = append(hexs, hex.EncodeToString(ch))
	}
	hs.Conns = [][]string{hexs}
	return hs
}

type c28Msg struct {
	Kind   string            `json:"kind"` // viol | done | progress
	Rule   string            `json:"rule,omitempty"`
	Attrs  map[string]string `json:"attrs,omitempty"`
	Detail string            `json:"detail,omitempty"`
	Stream *hostileStream    `json:"stream,omitempty"`
	Counts map[string]int64  `json:"counts,omitempty"`
	Index  int               `json:"index,omitempty"`
}

// reference client: conservation monitor (sent = acknowledged = echoed, in order, exactly once; pings answered)
type refClient struct {
	d      *dconn
	n      int
	echoed int
}

func (rcl *refClient) round(b *eng.Broker) string {
	rcl.n++
	payload := fmt.Sprintf("ref-%d", rcl.n)
	pid := uint16(1 + rcl.n%60000)
	rx := rcl.d.send(publishPkt("ref/t", 1, pid, payload, false))
	var ack, echo, other int
	for _, p := range rx {
		switch {
		case p.P.Type == rc.PUBACK && p.P.PacketID == pid && p.P.Reason < 0x80:
			ack++
		case p.P.Type == rc.PUBLISH && string(p.P.Payload) == payload:
			echo++
			if p.P.QoS == 1 {
				rcl.d.Send(&rc.Packet{Type: rc.PUBACK, Version: 5, PacketID: p.P.PacketID}, rc.FormAuto)
			}
		case p.P.Type == rc.PUBLISH && strings.HasPrefix(string(p.P.Payload), "ref-"):
			other++
		}
	}
	rx = rcl.d.send(&rc.Packet{Type: rc.PINGREQ})
	ping := hasType(rx, rc.PINGRESP) != nil
	switch {
	case rcl.d.closed():
		return "the reference client's connection was closed"
	case rcl.d.DecErr != nil:
		return "the reference client received undecodable bytes: " + rcl.d.DecErr.Error()
	case ack != 1:
		return fmt.Sprintf("reference publish %s acknowledged %d times", payload, ack)
	case echo != 1:
		return fmt.Sprintf("reference publish %s echoed %d times", payload, echo)
	case other != 0:
		return fmt.Sprintf("reference client received %d stale/out-of-order echoes", other)
	case !ping:
		return "reference PINGREQ not answered"
	}
	rcl.echoed++
	return ""
}

func childC28(args []string) {
	seed, _ := strconv.ParseInt(args[0], 10, 64)
	tier := args[1]
	start, _ := strconv.Atoi(args[2])
	end, _ := strconv.Atoi(args[3])
	logPath := args[4]
	nRandom, _ := strconv.Atoi(args[5])
	out := bufio.NewWriter(os.Stdout)
	emit := func(m c28Msg) { b, _ := json.Marshal(m); out.Write(b); out.WriteByte('\n'); out.Flush() }
	per := 4
	if tier == "thorough" {
		per = 8
	}
	seeds := corpusSeeds(seed, per)
	byVer := map[byte][]decInput{}
	for _, s := range seeds {
		byVer[s.Ver] = append(byVer[s.Ver], s)
	}
	var sys []decInput
	if end > nRandom {
		sys = systematicHostile(seeds, tier)
	}
	counts := map[string]int64{}
	lf, _ := os.OpenFile(logPath, os.O_CREATE|os.O_WRONLY|os.O_TRUNC, 0o644)
	var b *eng.Broker
	var ref *refClient
	var curMPS uint32
	newBroker := func(mps uint32) bool {
		if b != nil {
			b.Shutdown()
		}
		curMPS = mps
		b = eng.NewBroker(eng.Options{Caps: func(c *mqtt.Capabilities) { c.MaximumPacketSize = mps }})
		d, rx := dConnect(b, 5, "ref", true, nil, nil)
		if ca := hasType(rx, rc.CONNACK); ca == nil || ca.Reason != 0 {
			return false
		}
		if hasType(d.send(subscribePkt(1, "ref/t", 1)), rc.SUBACK) == nil {
			return false
		}
		ref = &refClient{d: d}
		return true
	}
	for idx := start; idx < end; idx++ {
		var hs hostileStream
		if idx < nRandom {
			hs = genHostile(seed, idx, seeds, byVer)
		} else if idx-nRandom < len(sys) {
			hs = sysStream(idx, sys[idx-nRandom], vk.Sub(seed, 2802, uint64(idx)))
			counts["systematic_streams"]++
		} else {
			break
		}
		if b == nil || hs.MPS != curMPS || idx%50 == 0 {
			if !newBroker(hs.MPS) {
				emit(c28Msg{Kind: "viol", Rule: "C28/reference-client-disturbed", Detail: "reference client could not connect/subscribe on a fresh broker", Index: idx})
				continue
			}
		}
		// record the stream before using it: if the process dies, this is the witness
		js, _ := json.Marshal(hs)
		lf.Truncate(0)
		lf.Seek(0, 0)
		lf.Write(js)
		lf.Sync()
		var conns []*eng.Client
		type sent struct{ hdrOnlyOversize bool }
		for _, chunks := range hs.Conns {
			conns = append(conns, b.Attach())
			_ = chunks
		}
		if idx < nRandom && idx%8 == 5 {
			hs.Concurrent = true
			hs.Kind += "+concurrent-with-reference-burst"
			js, _ = json.Marshal(hs)
			lf.Truncate(0)
			lf.Seek(0, 0)
			lf.Write(js)
			lf.Sync()
			for i, c := range conns {
				c.Version = 4
				c.Send(&rc.Packet{Type: rc.CONNECT, Version: 4, ProtoLevel: 4, ProtoName: "MQTT", ClientID: fmt.Sprintf("hs%d", i), ConnectFlags: 2}, rc.FormAuto)
				sp := subscribePkt(uint16(7+i), "ref/t", byte(i%2))
				sp.Version = 4
				c.Send(sp, rc.FormAuto)
			}
			b.Quiesce(10 * time.Second)
			var blob []byte
			for k := 0; k < 40; k++ {
				pk := publishPkt("ref/t", 1, uint16(61000+k), fmt.Sprintf("burst-%d", k), false)
				pk.Version = 5
				blob = append(blob, rc.Encode(pk, rc.FormAuto)...)
			}
			var wg sync.WaitGroup
			wg.Add(1)
			go func() { defer wg.Done(); ref.d.SendRaw(blob) }()
			for i, c := range conns {
				wg.Add(1)
				go func(c *eng.Client, chunks []string) {
					defer wg.Done()
					for _, h := range chunks {
						ch, _ := hex.DecodeString(h)
						c.SendRaw(ch)
					}
				}(c, hs.Conns[i])
			}
			wg.Wait()
			b.Quiesce(20 * time.Second)
			// the reference client acknowledges what it was sent during the burst and forgets it
			for _, rp := range ref.d.Drain() {
				if rp.P.Type == rc.PUBLISH && rp.P.QoS == 1 {
					ref.d.Send(&rc.Packet{Type: rc.PUBACK, Version: 5, PacketID: rp.P.PacketID}, rc.FormAuto)
				}
			}
			b.Quiesce(10 * time.Second)
			ref.d.Drain()
			counts["concurrent_streams"]++
			for i := range hs.Conns {
				hs.Conns[i] = nil // delivered
			}
		}
		// interleave the connections' chunks
		r := vk.Sub(seed, 2801, uint64(idx))
		pos := make([]int, len(conns))
		for {
			live := []int{}
			for i := range conns {
				if pos[i] < len(hs.Conns[i]) {
					live = append(live, i)
				}
			}
			if len(live) == 0 {
				break
			}
			i := vk.Pick(r, live)
			ch, _ := hex.DecodeString(hs.Conns[i][pos[i]])
			pos[i]++
			conns[i].SendRaw(ch)
			counts["hostile_bytes"] += int64(len(ch))
			if r.Chance(40) {
				b.Quiesce(10 * time.Second)
			}
		}
		counts["streams"]++
		counts["hostile_connections"] += int64(len(conns))
		if !b.Quiesce(15 * time.Second) {
			// some handler neither waits for input nor has returned: spinning or wedged
			st := &hs
			emit(c28Msg{Kind: "viol", Rule: "C28/handler-wedged", Attrs: map[string]string{"kind": hs.Kind}, Detail: "after the hostile stream was delivered the broker did not become quiescent within 15 s: a connection handler is neither waiting for more bytes nor finished", Stream: st, Index: idx})
			b = nil
			continue
		}
		anyClosed := false
		for _, c := range conns {
			closed, _ := c.MC.BrokerClosed()
			if closed || c.Done() {
				counts["hostile_closed"]++
				anyClosed = true
			} else {
				counts["hostile_still_served"]++
			}
		}
		if anyClosed {
			counts["streams_with_a_connection_closed_by_broker"]++
		}
		if why := ref.round(b); why != "" {
			st := &hs
			emit(c28Msg{Kind: "viol", Rule: "C28/reference-client-disturbed", Attrs: map[string]string{"kind": hs.Kind}, Detail: why + " after hostile stream " + strconv.Itoa(idx), Stream: st, Index: idx})
			b = nil
			continue
		}
		counts["reference_rounds_ok"]++
		// close the hostile connections that are still served so that they do not accumulate
		for _, c := range conns {
			c.MC.CloseByClient()
		}
		b.Quiesce(10 * time.Second)
	}
	// oversized packets: header announces more than the maximum; body withheld -> must be refused at once
	if start == 0 {
		for _, mps := range []uint32{256, 1024} {
			for _, ver := range []byte{4, 5} {
				for _, hdr := range []byte{0x30, 0x32, 0x82, 0xa2} {
					for _, extra := range []int{1, 2, 1000, 100000} {
						bb := eng.NewBroker(eng.Options{Caps: func(c *mqtt.Capabilities) { c.MaximumPacketSize = mps }})
						d, rx := dConnect(bb, ver, "big", true, nil, nil)
						if hasType(rx, rc.CONNACK) == nil {
							bb.Shutdown()
							continue
						}
						before := d.MC.Consumed()
						h := append([]byte{hdr}, rc.EncodeVBI(int(mps)+extra)...)
						d.raw(h)
						counts["oversize_probes"]++
						if !d.closed() {
							emit(c28Msg{Kind: "viol", Rule: "C28/oversized-packet-not-refused", Attrs: map[string]string{"v5": fmt.Sprint(ver == 5)},
								Detail: fmt.Sprintf("MaximumPacketSize %d: after a fixed header %x announcing %d bytes the broker keeps the connection open and waits for the body (consumed %d header bytes)", mps, h, int(mps)+extra, d.MC.Consumed()-before)})
						}
						// exactly at the limit must be accepted (not refused early)
						bb.Shutdown()
					}
				}
			}
		}
	}
	emit(c28Msg{Kind: "done", Counts: counts})
}

func checkC28(c *vk.Ctx) {
	c.Rule = "child processes host a real broker (MaximumPacketSize 256-4096) with a well-behaved MQTT 5 reference client that publishes numbered QoS 1 messages to a topic it subscribes to and pings; per stream 1-4 hostile in-memory connections send {valid CONNECT v3/v4/v5 | mutated CONNECT | no CONNECT} followed by 1-12 items drawn from: mutated packets (bit flips, inserts, deletes, splices, wrong versions/headers), well-formed packets for other versions, raw random bytes, inconsistent remaining lengths, headers announcing more than the maximum packet size (body withheld or supplied); in addition every well-formed v4/v5 non-CONNECT seed packet is sent behind a valid CONNECT cut short at every offset, as it is and with the continuation bit set on its last remaining byte (thorough: also the broker's catalogue packets, and every byte tampered to 0/0xff/+1/-1), one stream per mutation; in every eighth random stream the hostile connections first subscribe to the reference client's topic and then send their bytes, each from its own goroutine, while the reference client publishes a burst of 40 QoS 1 messages; chunks are split at arbitrary byte boundaries and interleaved across connections. " +
		"Every stream is written to disk before it is sent. Oracles: the child must not die (panic/fatal -> the logged stream is the witness); after delivery the broker must become quiescent (every hostile handler returned or waiting for bytes: not spinning or wedged); the reference client's publish must be acknowledged once and echoed once in order and its PINGREQ answered; a fixed header announcing more than the maximum packet size must end the connection without the body. nontrivial = streams after which at least one hostile connection had been closed by the broker"
	c.Assumptions = []string{"hostile connections never use the reference client's id (a takeover legitimately ends it)", "quiescence = handler blocked in Read with nothing buffered, or returned"}
	bin := os.Getenv("VERIF_BIN")
	if bin == "" {
		bin, _ = os.Executable()
	}
	scratch := os.Getenv("VERIF_SCRATCH")
	if scratch == "" {
		scratch = os.TempDir()
	}
	nRandom := c.N(12000, 150000)
	per := 4
	if c.Tier == "thorough" {
		per = 8
	}
	nSys := len(systematicHostile(corpusSeeds(c.Seed, per), c.Tier))
	total := nRandom + nSys
	batch := 250
	nb := (total + batch - 1) / batch
	var mu sync.Mutex
	totals := map[string]int64{}
	vk.Parallel(nb, 12, func(bi int) {
		start, end := bi*batch, (bi+1)*batch
		if end > total {
			end = total
		}
		logPath := filepath.Join(scratch, fmt.Sprintf("c28cur.%d", bi))
		for attempt := 0; attempt < 50 && start < end; attempt++ {
			cmd := exec.Command("timeout", "-s", "QUIT", "600", bin, "child", "hostile", fmt.Sprint(c.Seed), c.Tier, fmt.Sprint(start), fmt.Sprint(end), logPath, fmt.Sprint(nRandom))
			cmd.Env = append(os.Environ(), "GORACE=halt_on_error=0 exitcode=0 log_path="+filepath.Join(scratch, fmt.Sprintf("c28race.%d", bi)))
			var stderr bytes.Buffer
			cmd.Stderr = &stderr
			outb, err := cmd.Output()
			done := false
			sc := bufio.NewScanner(bytes.NewReader(outb))
			sc.Buffer(make([]byte, 1<<20), 1<<26)
			for sc.Scan() {
				var m c28Msg
				if json.Unmarshal(sc.Bytes(), &m) != nil {
					continue
				}
				switch m.Kind {
				case "viol":
					c.Violate(m.Rule, m.Attrs, m.Detail, map[string]any{"stream": m.Stream, "index": m.Index})
				case "done":
					done = true
					mu.Lock()
					for k, v := range m.Counts {
						totals[k] += v
					}
					mu.Unlock()
				}
			}
			if done && err == nil {
				return
			}
			// the broker process died: the stream on disk is the witness
			var hs hostileStream
			lb, _ := os.ReadFile(logPath)
			if json.Unmarshal(lb, &hs) != nil {
				c.Inconclusive(fmt.Sprintf("batch %d: child died without a logged stream: %v; %s", bi, err, tailStr(stderr.String(), 400)))
				return
			}
			se := stderr.String()
			kind := "exit"
			switch {
			case strings.Contains(se, "panic:"):
				kind = "panic"
			case strings.Contains(se, "fatal error:"):
				kind = "fatal"
			case strings.Contains(se, "SIGQUIT"):
				kind = "watchdog"
			}
			where := ""
			if i := strings.Index(se, "panic:"); i >= 0 {
				where = se[i:]
				if len(where) > 700 {
					where = where[:700]
				}
			}
			c.Violate("C28/broker-died", map[string]string{"kind": kind}, fmt.Sprintf("the broker process died (%v, %s) while hostile stream #%d (%s) was being delivered: %s", err, kind, hs.Index, hs.Kind, where), map[string]any{"stream": hs, "stderr_tail": tailStr(se, 2500)})
			mu.Lock()
			totals["child_deaths"]++
			mu.Unlock()
			start = hs.Index + 1
		}
	})
	for k, v := range totals {
		c.Count(k, v)
	}
	n := totals["streams_with_a_connection_closed_by_broker"] // stream indices are distinct by construction
	hs := make([]uint64, 0, n)
	for i := int64(0); i < n; i++ {
		hs = append(hs, uint64(i)+1)
	}
	c.EvalBulk(totals["streams"], hs)
	seeds := corpusSeeds(c.Seed, 4)
	byVer := map[byte][]decInput{}
	for _, s := range seeds {
		byVer[s.Ver] = append(byVer[s.Ver], s)
	}
	for i := 0; i < 2; i++ {
		c.Sample(genHostile(c.Seed, i, seeds, byVer))
	}
	c.MinEvents["streams"] = int64(total * 9 / 10)
	c.MinEvents["reference_rounds_ok"] = int64(total / 2)
	c.MinEvents["hostile_closed"] = int64(total / 4)
	c.MinEvents["oversize_probes"] = 32
	c.MinEvents["concurrent_streams"] = int64(nRandom / 10)
	c.MinEvents["systematic_streams"] = int64(nSys * 9 / 10)
}
