package main

import (
	"fmt"
	"sync"
	"time"

	mqtt "github.com/mochi-mqtt/server/v2"

	"verif/harness/eng"
	rc "verif/harness/refcodec"
	"verif/harness/vk"
)

// c10Wraparound: outbound packet ids across the 65535 -> 1 wrap never are 0 and never collide with outstanding ones.
func c10Wraparound(c *vk.Ctx) {
	for _, startAt := range []uint32{65530, 65534, 65535} {
		b := eng.NewBroker(eng.Options{})
		sub, _ := dConnect(b, 5, "s", true, nil, nil)
		sub.send(subscribePkt(1, "w", 1))
		pub, _ := dConnect(b, 4, "p", true, nil, nil)
		if cl, ok := b.S.Clients.Get("s"); ok {
			cl.VerifSetPacketID(startAt)
		}
		outstanding := map[uint16]string{}
		for i := 0; i < 14; i++ {
			pub.send(publishPkt("w", 1, uint16(100+i), fmt.Sprintf("w%d", i), false))
			for _, rp := range sub.wait() {
				if rp.P.Type != rc.PUBLISH {
					continue
				}
				id := rp.P.PacketID
				if id == 0 {
					c.Violate("C10/packet-id-zero", map[string]string{"wrap": "true"}, fmt.Sprintf("outbound QoS 1 PUBLISH %q has packet id 0 (start %d)", rp.P.Payload, startAt), nil)
				}
				if other, ok := outstanding[id]; ok {
					c.Violate("C10/packet-id-in-use", map[string]string{"wrap": "true"}, fmt.Sprintf("id %d assigned to %q while %q is unacknowledged (start %d)", id, rp.P.Payload, other, startAt), nil)
				}
				outstanding[id] = string(rp.P.Payload)
				c.Count("wrap_ids_observed", 1)
				// acknowledge every second message only, so that ids stay outstanding across the wrap
				if i%2 == 0 {
					sub.Send(&rc.Packet{Type: rc.PUBACK, Version: 5, PacketID: id}, rc.FormAuto)
					delete(outstanding, id)
				}
			}
		}
		c.Eval(vk.Hash("wrap", startAt), len(outstanding) > 0)
		b.Shutdown()
	}
	c.MinEvents["wrap_ids_observed"] = 30
}

// c10Concurrent: several publishers deliver to one subscriber at the same moment (each connection has its own handler
// goroutine, every publisher sends its whole burst in one write); the subscriber acknowledges nothing. Every outbound
// PUBLISH must then carry an id of its own, none 0, also while the id counter passes 65535.
func c10Concurrent(c *vk.Ctx) {
	rounds := c.N(12, 60)
	for round := 0; round < rounds; round++ {
		b := eng.NewBroker(eng.Options{})
		sub, _ := dConnect(b, 4, "cs", true, nil, nil)
		sub.send(subscribePkt(1, "cc/#", 1))
		if round%2 == 1 {
			if cl, ok := b.S.Clients.Get("cs"); ok {
				cl.VerifSetPacketID(65535 - 300)
			}
		}
		const P, K = 8, 150
		var pubs []*dconn
		for i := 0; i < P; i++ {
			d, _ := dConnect(b, 4, fmt.Sprintf("cp%d", i), true, nil, nil)
			pubs = append(pubs, d)
		}
		var wg sync.WaitGroup
		for i, d := range pubs {
			var blob []byte
			for k := 0; k < K; k++ {
				pk := publishPkt(fmt.Sprintf("cc/%d", i), 1, uint16(1+k), fmt.Sprintf("c%d-%d", i, k), false)
				pk.Version = 4
				blob = append(blob, rc.Encode(pk, rc.FormAuto)...)
			}
			wg.Add(1)
			go func(d *dconn, blob []byte) { defer wg.Done(); d.SendRaw(blob) }(d, blob)
		}
		wg.Wait()
		b.Quiesce(30 * time.Second)
		seen := map[uint16]string{}
		got := 0
		for _, rp := range sub.Drain() {
			if rp.P.Type != rc.PUBLISH || rp.P.QoS == 0 {
				continue
			}
			got++
			id := rp.P.PacketID
			if id == 0 {
				c.Violate("C10/packet-id-zero", map[string]string{"concurrent": "true"}, fmt.Sprintf("outbound QoS 1 PUBLISH %q has packet id 0", rp.P.Payload), nil)
			}
			if other, ok := seen[id]; ok {
				c.Violate("C10/packet-id-in-use", map[string]string{"concurrent": "true", "wrap": fmt.Sprint(round%2 == 1)},
					fmt.Sprintf("%d publishers x %d QoS 1 messages to one subscriber that acknowledges nothing: packet id %d was given to %q while %q is unacknowledged", P, K, id, rp.P.Payload, other),
					map[string]any{"publishers": P, "messages_each": K, "round": round})
				break
			}
			seen[id] = string(rp.P.Payload)
		}
		c.Count("concurrent_outbound_ids_observed", int64(got))
		c.Eval(vk.Hash("c10conc", round), got > P)
		b.Shutdown()
	}
	c.MinEvents["concurrent_outbound_ids_observed"] = int64(rounds) * 500
}

// c11Inbound: the broker must not answer 0x93 while the client stays within the advertised Receive Maximum.
func c11Inbound(c *vk.Ctx) {
	for _, rm := range []uint16{1, 2, 4} {
		// (a) plain: sequential QoS 1/2 publishes, each completed before the next: never exceeds any maximum >= 1
		b := eng.NewBroker(eng.Options{Caps: func(cp *mqtt.Capabilities) { cp.ReceiveMaximum = rm }})
		d, r := dConnect(b, 5, "c", true, nil, nil)
		if ca := hasType(r, rc.CONNACK); ca == nil || ca.Props.Num(rc.PReceiveMaximum, 65535) != uint32(rm) {
			c.Note(fmt.Sprintf("CONNACK receive maximum not %d", rm))
		}
		for i := 0; i < 12; i++ {
			q := byte(1 + i%2)
			r := d.send(publishPkt("t", q, uint16(10+i), "x", false))
			if q == 2 {
				r = append(r, d.send(&rc.Packet{Type: rc.PUBREL, PacketID: uint16(10 + i)})...)
			}
			// QoS 0 in between never counts
			r = append(r, d.send(publishPkt("t", 0, 0, "y", false))...)
			if dp := hasType(r, rc.DISCONNECT); dp != nil && dp.Reason == 0x93 {
				c.Violate("C11/receive-maximum-exceeded-disconnect", map[string]string{"outbound_pubrec_pending": "false"}, fmt.Sprintf("server RM %d: DISCONNECT 0x93 after %d sequential, fully acknowledged publishes", rm, i+1), nil)
				break
			}
			c.Count("inbound_publishes_within_limit", 1)
		}
		c.Eval(vk.Hash("c11a", rm), true)
		b.Shutdown()

		// (b) with a broker-outbound QoS 2 exchange in progress (PUBREC sent, PUBCOMP withheld)
		b = eng.NewBroker(eng.Options{Caps: func(cp *mqtt.Capabilities) { cp.ReceiveMaximum = rm }})
		d, _ = dConnect(b, 5, "c", true, nil, nil)
		d.send(subscribePkt(1, "o", 2))
		p, _ := dConnect(b, 5, "p", true, nil, nil)
		for k := 0; k < int(rm); k++ {
			p.send(publishPkt("o", 2, uint16(50+k), fmt.Sprintf("o%d", k), false))
			p.send(&rc.Packet{Type: rc.PUBREL, PacketID: uint16(50 + k)})
			for _, rp := range d.wait() {
				if rp.P.Type == rc.PUBLISH {
					d.send(&rc.Packet{Type: rc.PUBREC, PacketID: rp.P.PacketID}) // PUBREL follows; PUBCOMP withheld
				}
			}
		}
		r = d.send(publishPkt("t", 1, 90, "x", false))
		if dp := hasType(r, rc.DISCONNECT); dp != nil && dp.Reason == 0x93 {
			c.Violate("C11/receive-maximum-exceeded-disconnect", map[string]string{"outbound_pubrec_pending": "true"},
				fmt.Sprintf("server RM %d: client has 0 unacknowledged own publishes but %d broker-outbound QoS 2 exchanges at PUBREC; its first QoS 1 publish is answered with DISCONNECT 0x93", rm, rm),
				map[string]any{"server_receive_maximum": rm, "sequence": "SUBSCRIBE o q2; peer publishes q2 x RM; client PUBRECs each (no PUBCOMP); client PUBLISH t q1"})
		}
		c.Eval(vk.Hash("c11b", rm), true)
		b.Shutdown()
	}
}
