package main

import (
	"bytes"
	"fmt"
	"runtime"
	"sync"

	"github.com/mochi-mqtt/server/v2/packets"

	"verif/harness/refcodec"
	"verif/harness/vk"
)

func init() { register("C29", "exploration", checkC29) }

// C29: variable byte integers canonical and bounded.
// Oracle: refcodec.EncodeVBI/DecodeVBI (10-line reference).
func checkC29(c *vk.Ctx) {
	c.Rule = "every integer n in [0,268435455]: FixedHeader.Encode's length bytes == minimal reference encoding and DecodeLength(bytes)==(n,len); " +
		"every byte string of length 1..6 over {00,01,7F,80,81,FF} (also with each remaining byte value in last position sampled): DecodeLength accept/reject, value and consumed count == reference; " +
		"same strings as Subscription Identifier through Properties.Decode. nontrivial = distinct (encoded length class, boundary bucket) for integers and every distinct pattern string"
	c.Assumptions = []string{"reference VBI codec in refcodec/vbi.go is correct (10 lines, from MQTT 1.5.5)"}

	// ---- part 1: integer sweep
	stride := 1
	lo, hi := 0, refcodec.MaxVBI
	if os := vkEnvInt("VERIF_C29_STRIDE", 0); os > 0 {
		stride = os
	}
	exhaustive := stride == 1
	w := runtime.GOMAXPROCS(0)
	var wg sync.WaitGroup
	chunk := (hi - lo + 1 + w - 1) / w
	var mu sync.Mutex
	var total int64
	classes := map[uint64]struct{}{}
	for k := 0; k < w; k++ {
		a, b := lo+k*chunk, lo+(k+1)*chunk-1
		if b > hi {
			b = hi
		}
		wg.Add(1)
		go func(a, b int) {
			defer wg.Done()
			var buf bytes.Buffer
			var ref [4]byte
			n := int64(0)
			local := map[uint64]struct{}{}
			for v := a; v <= b; v += stride {
				buf.Reset()
				fh := packets.FixedHeader{Type: packets.Publish, Remaining: v}
				fh.Encode(&buf)
				enc := buf.Bytes()[1:]
				r := refcodec.AppendVBI(ref[:0], v)
				if !bytes.Equal(enc, r) {
					c.Violate("C29/encode-not-minimal", map[string]string{"len": fmt.Sprint(len(enc))},
						fmt.Sprintf("n=%d encoded as % x, reference % x", v, enc, r), map[string]any{"n": v, "encoded": fmt.Sprintf("% x", enc)})
				}
				rd := bytes.NewReader(enc)
				got, bu, err := packets.DecodeLength(rd)
				if err != nil || got != v || bu != len(enc) || rd.Len() != 0 {
					c.Violate("C29/roundtrip", map[string]string{"len": fmt.Sprint(len(enc))},
						fmt.Sprintf("n=%d enc=% x decoded=%d consumed=%d err=%v", v, enc, got, bu, err), map[string]any{"n": v})
				}
				n++
				// boundary bucket: distance class to nearest 128^k boundary
				if v < 300 || v&0x7f == 0 || v&0x7f == 0x7f {
					local[vk.Hash("int", len(enc), v>>7&3, v&0x7f)] = struct{}{}
				}
			}
			mu.Lock()
			total += n
			for h := range local {
				classes[h] = struct{}{}
			}
			mu.Unlock()
		}(a, b)
	}
	wg.Wait()
	hs := make([]uint64, 0, len(classes))
	for h := range classes {
		hs = append(hs, h)
	}
	c.EvalBulk(total, hs)
	c.Count("integers_roundtripped", total)
	c.Exhaustive = exhaustive
	c.Extra("integer_range", []int{lo, hi})
	c.Extra("integer_stride", stride)

	// ---- part 2: continuation-byte patterns
	alpha := []byte{0x00, 0x01, 0x7f, 0x80, 0x81, 0xff}
	var patterns [][]byte
	var gen func(cur []byte, depth int)
	gen = func(cur []byte, depth int) {
		if len(cur) > 0 {
			patterns = append(patterns, append([]byte{}, cur...))
		}
		if depth == 6 {
			return
		}
		for _, a := range alpha {
			gen(append(cur, a), depth+1)
		}
	}
	gen(nil, 0)
	// extra: for prefixes of 3 and 4 continuation bytes, every final byte value
	for _, pre := range [][]byte{{0x80, 0x80, 0x80}, {0xff, 0xff, 0xff}, {0x80, 0x80, 0x80, 0x80}, {0xff, 0xff, 0xff, 0xff}, {0x81, 0x80, 0xff, 0x80}} {
		for b := 0; b < 256; b++ {
			patterns = append(patterns, append(append([]byte{}, pre...), byte(b)))
		}
	}
	sampled := 0
	for _, p := range patterns {
		rv, rn, rerr := refcodec.DecodeVBI(p)
		rd := bytes.NewReader(p)
		gv, gn, gerr := packets.DecodeLength(rd)
		attrs := map[string]string{"bytes": fmt.Sprint(len(p)), "ref": errClass(rerr)}
		switch {
		case rerr == nil && (gerr != nil || gv != rv || gn != rn):
			c.Violate("C29/decode-valid-mismatch", attrs, fmt.Sprintf("% x: reference (%d,%d) got (%d,%d,%v)", p, rv, rn, gv, gn, gerr), map[string]any{"bytes": fmt.Sprintf("% x", p)})
		case rerr == refcodec.ErrMalformed && gerr == nil:
			c.Violate("C29/accepts-overlong", attrs, fmt.Sprintf("% x accepted as %d (consumed %d); more than four bytes must be rejected", p, gv, gn), map[string]any{"bytes": fmt.Sprintf("% x", p)})
		case rerr == refcodec.ErrShort && gerr == nil:
			c.Violate("C29/accepts-truncated", attrs, fmt.Sprintf("% x accepted as %d", p, gv), map[string]any{"bytes": fmt.Sprintf("% x", p)})
		}
		c.Eval(vk.Hash("pat", p), true)
		c.Count("patterns", 1)
		if rerr == refcodec.ErrMalformed {
			c.Count("patterns_overlong", 1)
		}
		if sampled < 3 && len(p) == 5 {
			c.Sample(map[string]any{"bytes": fmt.Sprintf("% x", p), "reference": errClass(rerr), "mochi_err": fmt.Sprint(gerr), "mochi_value": gv})
			sampled++
		}

		// as a subscription identifier inside a SUBSCRIBE property block
		if len(p) <= 5 {
			body := append([]byte{byte(1 + len(p)), 0x0b}, p...)
			var props packets.Properties
			_, perr := safePropsDecode(&props, packets.Subscribe, body)
			if rerr == nil && rn == len(p) {
				if perr != nil || len(props.SubscriptionIdentifier) != 1 || props.SubscriptionIdentifier[0] != rv {
					c.Violate("C29/subid-valid-mismatch", attrs, fmt.Sprintf("sub id % x: want %d got %v err=%v", p, rv, props.SubscriptionIdentifier, perr), map[string]any{"bytes": fmt.Sprintf("% x", p)})
				}
			} else if rerr != nil && perr == nil {
				c.Violate("C29/subid-accepts-invalid", attrs, fmt.Sprintf("sub id % x (%s) accepted as %v", p, errClass(rerr), props.SubscriptionIdentifier), map[string]any{"bytes": fmt.Sprintf("% x", p)})
			}
			c.Count("subid_patterns", 1)
		}
	}
	c.MinEvents["patterns_overlong"] = 100
	c.MinEvents["integers_roundtripped"] = 1000000
}

func safePropsDecode(p *packets.Properties, pkt byte, body []byte) (n int, err error) {
	defer func() {
		if r := recover(); r != nil {
			err = fmt.Errorf("panic: %v", r)
		}
	}()
	return p.Decode(pkt, bytes.NewBuffer(body))
}

func errClass(err error) string {
	switch err {
	case nil:
		return "ok"
	case refcodec.ErrShort:
		return "short"
	case refcodec.ErrMalformed:
		return "malformed"
	}
	return "error"
}
