package main

import (
	"fmt"
	"net"
	"sort"
	"strings"
	"sync"
	"time"

	"github.com/gorilla/websocket"
	mqtt "github.com/mochi-mqtt/server/v2"
	"github.com/mochi-mqtt/server/v2/hooks/auth"
	"github.com/mochi-mqtt/server/v2/listeners"
	"github.com/mochi-mqtt/server/v2/packets"

	rc "verif/harness/refcodec"
	"verif/harness/refmatch"
	"verif/harness/vk"
)

func init() { register("C39", "exploration", checkC39) }

// readLog records, per remote address, the packets the broker read (OnPacketRead).
type readLog struct {
	mqtt.HookBase
	mu sync.Mutex
	m  map[string][]string
}

func (h *readLog) ID() string           { return "verif-readlog" }
func (h *readLog) Provides(b byte) bool { return b == mqtt.OnPacketRead }
func (h *readLog) OnPacketRead(cl *mqtt.Client, pk packets.Packet) (packets.Packet, error) {
	d := fmt.Sprintf("%d/q%d/id%d/%s/%d/%x", pk.FixedHeader.Type, pk.FixedHeader.Qos, pk.PacketID, pk.TopicName, len(pk.Payload), vk.Hash(string(pk.Payload)))
	for _, f := range pk.Filters {
		d += "/" + f.Filter
	}
	h.mu.Lock()
	h.m[cl.Net.Remote] = append(h.m[cl.Net.Remote], d)
	h.mu.Unlock()
	return pk, nil
}
func (h *readLog) take(remote string) []string {
	h.mu.Lock()
	defer h.mu.Unlock()
	v := h.m[remote]
	delete(h.m, remote)
	return v
}

func freePort() (string, error) {
	l, err := net.Listen("tcp", "127.0.0.1:0")
	if err != nil {
		return "", err
	}
	a := l.Addr().String()
	l.Close()
	return a, nil
}

type c39Servers struct {
	tcp, ws         *mqtt.Server
	tcpAddr, wsAddr string
	tcpLog, wsLog   *readLog
}

func startC39() (*c39Servers, error) {
	x := &c39Servers{tcpLog: &readLog{m: map[string][]string{}}, wsLog: &readLog{m: map[string][]string{}}}
	x.tcp = mqtt.New(&mqtt.Options{Logger: quietLogger()})
	_ = x.tcp.AddHook(new(auth.AllowHook), nil)
	_ = x.tcp.AddHook(x.tcpLog, nil)
	tl := listeners.NewTCP(listeners.Config{ID: "t", Address: "127.0.0.1:0"})
	if err := x.tcp.AddListener(tl); err != nil {
		return nil, err
	}
	if err := x.tcp.Serve(); err != nil {
		return nil, err
	}
	x.tcpAddr = tl.Address()
	for attempt := 0; attempt < 5; attempt++ {
		addr, err := freePort()
		if err != nil {
			return nil, err
		}
		s := mqtt.New(&mqtt.Options{Logger: quietLogger()})
		_ = s.AddHook(new(auth.AllowHook), nil)
		_ = s.AddHook(x.wsLog, nil)
		if err := s.AddListener(listeners.NewWebsocket(listeners.Config{ID: "w", Address: addr})); err != nil {
			continue
		}
		if err := s.Serve(); err != nil {
			continue
		}
		// wait until the http server accepts
		ok := false
		for i := 0; i < 200; i++ {
			if c, err := net.DialTimeout("tcp", addr, 100*time.Millisecond); err == nil {
				c.Close()
				ok = true
				break
			}
			time.Sleep(5 * time.Millisecond)
		}
		if ok {
			x.ws, x.wsAddr = s, addr
			return x, nil
		}
		s.Close()
	}
	return nil, fmt.Errorf("websocket listener did not come up")
}

type c39Session struct {
	Ver     byte
	ID      string
	Packets []*rc.Packet
	Stream  []byte
	Cuts    []int // message boundaries (offsets into Stream)
	Frag    bool  // small write buffer: messages are split into continuation frames
	TextAt  int   // index of the message that is sent as a text message instead (-1 = none)
	TextKind   int  // what the text message carries: 0 = "not mqtt", 1 = a well-formed QoS 0 PUBLISH to a topic of the session (valid UTF-8), 2 = a PINGREQ
	EmptyBefore bool // an empty binary message is sent directly before the text message
	Empties    map[int]int // number of empty binary messages sent after segment k (a zero-length message carries no bytes of the stream)
	MaxSeg  int
}

func genC39(r *vk.Rand, i int) *c39Session {
	s := &c39Session{Ver: vk.Pick(r, []byte{4, 5, 5}), ID: fmt.Sprintf("s%d", i), TextAt: -1}
	add := func(p *rc.Packet) { p.Version = s.Ver; s.Packets = append(s.Packets, p) }
	add(&rc.Packet{Type: rc.CONNECT, ProtoLevel: s.Ver, ProtoName: "MQTT", ClientID: s.ID, ConnectFlags: 2})
	pid := uint16(100)
	var q2 []uint16
	n := r.Range(5, 40)
	for k := 0; k < n; k++ {
		switch r.Intn(10) {
		case 0, 1:
			pid++
			add(&rc.Packet{Type: rc.SUBSCRIBE, PacketID: pid, Filters: []rc.SubFilter{{Filter: vk.Pick(r, []string{s.ID + "/#", s.ID + "/a", s.ID + "/+/b"}), Options: byte(r.Intn(3))}}})
		case 2:
			pid++
			add(&rc.Packet{Type: rc.UNSUBSCRIBE, PacketID: pid, Filters: []rc.SubFilter{{Filter: vk.Pick(r, []string{s.ID + "/#", s.ID + "/a"})}}})
		case 3:
			add(&rc.Packet{Type: rc.PINGREQ})
		case 4:
			if len(q2) > 0 {
				add(&rc.Packet{Type: rc.PUBREL, PacketID: q2[0]})
				q2 = q2[1:]
				continue
			}
			fallthrough
		default:
			q := byte(r.Intn(3))
			size := vk.Pick(r, []int{0, 1, 10, 126, 127, 128, 1000, 5000})
			pl := []byte(strings.Repeat(fmt.Sprintf("%c", 'a'+k%26), size))
			p := &rc.Packet{Type: rc.PUBLISH, Topic: s.ID + vk.Pick(r, []string{"/a", "/x/b", "/c"}), QoS: q, Payload: pl}
			if q > 0 {
				pid++
				p.PacketID = pid
				if q == 2 {
					q2 = append(q2, pid)
				}
			}
			add(p)
		}
	}
	add(&rc.Packet{Type: rc.DISCONNECT})
	for _, p := range s.Packets {
		s.Stream = append(s.Stream, rc.Encode(p, rc.FormAuto)...)
	}
	s.MaxSeg = vk.Pick(r, []int{1, 2, 7, 64, 200, 1000, 4096, len(s.Stream)})
	for off := 0; off < len(s.Stream); {
		k := r.Range(1, s.MaxSeg)
		if r.Chance(10) {
			k = s.MaxSeg
		}
		off += k
		if off > len(s.Stream) {
			off = len(s.Stream)
		}
		s.Cuts = append(s.Cuts, off)
	}
	s.Frag = r.Chance(35)
	if r.Chance(15) && len(s.Cuts) > 2 {
		s.TextAt = r.Range(1, len(s.Cuts)-1)
		s.TextKind = r.Intn(3)
		s.EmptyBefore = r.Bool()
	}
	s.Empties = map[int]int{}
	if r.Chance(30) {
		for k := range s.Cuts {
			if r.Chance(10) {
				s.Empties[k] = r.Range(1, 2)
			}
		}
	}
	return s
}

// expectedReplies computes, from the packet list alone, how many packets the broker owes this
// session: one direct response per request plus one forwarded PUBLISH per publish that matches
// one of the session's own subscriptions at that point (a single connection is processed sequentially).
func expectedReplies(s *c39Session, upto int) int {
	n := 0
	subs := map[string]bool{}
	for _, p := range s.Packets[:upto] {
		switch p.Type {
		case rc.CONNECT, rc.PINGREQ, rc.PUBREL:
			n++
		case rc.SUBSCRIBE:
			n++
			for _, f := range p.Filters {
				subs[f.Filter] = true
			}
		case rc.UNSUBSCRIBE:
			n++
			for _, f := range p.Filters {
				delete(subs, f.Filter)
			}
		case rc.PUBLISH:
			if p.QoS > 0 {
				n++
			}
			for f := range subs {
				if refmatch.Match(f, p.Topic) {
					n++
					break
				}
			}
		}
	}
	return n
}

// transport abstracts the two ways of carrying the byte stream.
type c39Conn interface {
	sendBinary(b []byte) error
	sendText(b []byte) error
	local() string
	// recv returns the next chunk of reply bytes; io.EOF (or any error) when the peer closed
	recv() ([]byte, error)
	close()
}

type tcpT struct{ c net.Conn }

func (t *tcpT) sendBinary(b []byte) error { _, err := t.c.Write(b); return err }
func (t *tcpT) sendText(b []byte) error   { return t.c.(*net.TCPConn).CloseWrite() }
func (t *tcpT) local() string             { return t.c.LocalAddr().String() }
func (t *tcpT) recv() ([]byte, error) {
	buf := make([]byte, 8192)
	n, err := t.c.Read(buf)
	return buf[:n], err
}
func (t *tcpT) close() { t.c.Close() }

type wsT struct {
	c         *websocket.Conn
	nonBinary bool
}

func (t *wsT) sendBinary(b []byte) error { return t.c.WriteMessage(websocket.BinaryMessage, b) }
func (t *wsT) sendText(b []byte) error   { return t.c.WriteMessage(websocket.TextMessage, b) }
func (t *wsT) local() string             { return t.c.LocalAddr().String() }
func (t *wsT) recv() ([]byte, error) {
	mt, b, err := t.c.ReadMessage()
	if err == nil && mt != websocket.BinaryMessage {
		t.nonBinary = true
	}
	return b, err
}
func (t *wsT) close() { t.c.Close() }

type c39Result struct {
	replies   []byte
	nReplies  int
	closed    bool // the broker ended the connection after the final message
	starved   bool // expected replies did not arrive within the watchdog
	decodeErr error
	descr     []string
}

// runC39 plays the session: all segments before the final DISCONNECT, waits until the replies owed
// have arrived, then the DISCONNECT (or, for text sessions, the text message / half-close) and waits for the close.
// textPayload is what the text message carries. Kinds 1 and 2 are bytes that would be a well-formed packet
// had they arrived in a binary message, so a broker that lets them through reads one packet more than over
// TCP and keeps the connection open.
func (s *c39Session) textPayload() []byte {
	switch s.TextKind {
	case 1:
		return rc.Encode(&rc.Packet{Version: s.Ver, Type: rc.PUBLISH, Topic: s.ID + "/a", Payload: []byte("text")}, rc.FormAuto)
	case 2:
		return rc.Encode(&rc.Packet{Version: s.Ver, Type: rc.PINGREQ}, rc.FormAuto)
	}
	return []byte("not mqtt")
}

func runC39(t c39Conn, s *c39Session, segs [][]byte, tail [][]byte, want int, text bool) c39Result {
	var res c39Result
	var mu sync.Mutex
	cond := sync.NewCond(&mu)
	eof := false
	go func() {
		for {
			b, err := t.recv()
			mu.Lock()
			res.replies = append(res.replies, b...)
			if err != nil {
				eof = true
				cond.Broadcast()
				mu.Unlock()
				return
			}
			if pk, _, e := rc.DecodeStream(s.Ver, res.replies, true); e == nil {
				res.nReplies = len(pk)
			}
			cond.Broadcast()
			mu.Unlock()
		}
	}()
	for _, m := range segs {
		if err := t.sendBinary(m); err != nil {
			break
		}
	}
	wd := time.AfterFunc(15*time.Second, func() { mu.Lock(); res.starved = true; cond.Broadcast(); mu.Unlock() })
	mu.Lock()
	for res.nReplies < want && !eof && !res.starved {
		cond.Wait()
	}
	mu.Unlock()
	wd.Stop()
	if text {
		if s.EmptyBefore {
			_ = t.sendBinary(nil)
		}
		_ = t.sendText(s.textPayload())
	} else {
		for _, m := range tail {
			_ = t.sendBinary(m)
		}
	}
	wd2 := time.AfterFunc(10*time.Second, func() { mu.Lock(); res.starved = true; cond.Broadcast(); mu.Unlock(); t.close() })
	mu.Lock()
	for !eof {
		cond.Wait()
	}
	res.closed = !res.starved
	mu.Unlock()
	wd2.Stop()
	t.close()
	pk, rest, err := rc.DecodeStream(s.Ver, res.replies, true)
	if err == nil && rest != 0 {
		err = fmt.Errorf("%d trailing bytes do not form a packet", rest)
	}
	res.decodeErr = err
	for _, p := range pk {
		// the remaining Message Expiry Interval depends on when the copy was written (whole seconds): not transport behaviour
		var ps rc.Props
		for _, x := range p.Props {
			if x.ID != rc.PMessageExpiry {
				ps = append(ps, x)
			}
		}
		p.Props = ps
		res.descr = append(res.descr, p.String())
	}
	sort.Strings(res.descr)
	return res
}

func checkC39(c *vk.Ctx) {
	c.Rule = "random MQTT sessions (CONNECT v4/v5, 5-40 packets: SUBSCRIBE/UNSUBSCRIBE to own topics, PUBLISH QoS 0-2 with payloads 0..5000 bytes echoed back through the session's own subscriptions, PUBREL, PINGREQ, then DISCONNECT once every owed reply has arrived) sent (1) over a loopback TCP listener and (2) over the WebSocket listener of an identically configured broker with the byte stream cut into binary messages at PRNG boundaries (segment size 1..N, N in {1,2,7,64,200,1000,4096,whole}; 35% with a 32-byte client write buffer so that messages are fragmented into continuation frames): " +
		"the sequence of packets the broker read (OnPacketRead: type, QoS, id, topic, payload length+hash, filters) must be identical, the concatenated binary replies must decode cleanly (strict reference decoder) to the same multiset of packets as over TCP and to the number of packets the session is owed, and the connection must end after DISCONNECT. In 15% of the sessions a TEXT message is sent after a prefix of the stream (carrying junk, a well-formed QoS 0 PUBLISH or a PINGREQ; in half of them directly after an empty binary message): the broker must have processed exactly the packets completed before it - none of the text message's bytes - and must close the connection. 30% of the sessions interleave empty binary messages (which carry no bytes of the stream) with the others. nontrivial = sessions in which at least one packet spanned two WebSocket messages or one message carried several packets"
	c.Assumptions = []string{"reply order between acknowledgements (reader goroutine) and forwarded publishes (write loop) is not fixed, so replies are compared as multisets", "gorilla/websocket client is trusted as the WebSocket peer"}
	srv, err := startC39()
	if err != nil {
		c.Inconclusive("cannot start listeners: " + err.Error())
		c.MinEvents["sessions"] = 1
		return
	}
	defer srv.tcp.Close()
	defer srv.ws.Close()
	n := c.N(300, 5000)
	vk.Parallel(n, 8, func(i int) {
		r := vk.Sub(c.Seed, 39, uint64(i))
		s := genC39(r, i)
		// body = everything but the final DISCONNECT; for a text session only a prefix of it
		discLen := len(rc.Encode(s.Packets[len(s.Packets)-1], rc.FormAuto))
		body := s.Stream[:len(s.Stream)-discLen]
		text := s.TextAt >= 0
		upto := len(s.Packets) - 1
		if text {
			lim := s.Cuts[s.TextAt-1]
			if lim > len(body) {
				lim = len(body)
			}
			body = body[:lim]
			// packets completely contained in the prefix
			off := 0
			upto = 0
			for k, p := range s.Packets[:len(s.Packets)-1] {
				off += len(rc.Encode(p, rc.FormAuto))
				if off <= lim {
					upto = k + 1
				}
			}
		}
		want := expectedReplies(s, upto)
		var segs [][]byte
		spanning, multi := false, false
		nEmpty := 0
		bounds := map[int]bool{}
		off := 0
		for _, p := range s.Packets {
			off += len(rc.Encode(p, rc.FormAuto))
			bounds[off] = true
		}
		prev := 0
		for _, cut := range s.Cuts {
			if cut > len(body) {
				cut = len(body)
			}
			if cut <= prev {
				break
			}
			segs = append(segs, body[prev:cut])
			for e := 0; e < s.Empties[len(segs)-1]; e++ {
				segs = append(segs, nil)
				nEmpty++
			}
			if !bounds[cut] {
				spanning = true
			}
			nb := 0
			for o := range bounds {
				if o > prev && o <= cut {
					nb++
				}
			}
			if nb > 1 {
				multi = true
			}
			prev = cut
		}
		disc := s.Stream[len(s.Stream)-discLen:]
		tail := [][]byte{disc}
		if r.Bool() {
			tail = [][]byte{disc[:1], disc[1:]}
		}
		// ---- TCP run (reference)
		tc, err := net.Dial("tcp", srv.tcpAddr)
		if err != nil {
			c.Inconclusive("tcp dial: " + err.Error())
			return
		}
		tt := &tcpT{tc}
		tRemote := tt.local()
		tres := runC39(tt, s, [][]byte{body}, [][]byte{disc}, want, text)
		// ---- WebSocket run
		d := websocket.Dialer{Subprotocols: []string{"mqtt"}, HandshakeTimeout: 5 * time.Second}
		if s.Frag {
			d.WriteBufferSize = 32
		}
		wc, _, err := d.Dial("ws://"+srv.wsAddr+"/", nil)
		if err != nil {
			c.Inconclusive("ws dial: " + err.Error())
			return
		}
		wt := &wsT{c: wc}
		wRemote := wt.local()
		wres := runC39(wt, s, segs, tail, want, text)
		tRead, wRead := srv.tcpLog.take(tRemote), srv.wsLog.take(wRemote)
		attrs := map[string]string{"fragmented": fmt.Sprint(s.Frag), "text_message": fmt.Sprint(text), "max_segment": fmt.Sprint(s.MaxSeg)}
		wit := map[string]any{"session": i, "version": s.Ver, "packets": len(s.Packets), "stream_bytes": len(s.Stream), "cuts": s.Cuts, "fragmented": s.Frag, "text_at": s.TextAt, "text_kind": s.TextKind, "empty_before_text": s.EmptyBefore, "empty_messages": nEmpty, "replies_owed": want}
		if tres.starved && !text {
			c.Inconclusive(fmt.Sprintf("session %d: TCP reference run did not complete (%d of %d replies)", i, tres.nReplies, want))
			return
		}
		if !eqStrs(tRead, wRead) {
			c.Violate("C39/packets-differ", attrs, fmt.Sprintf("session %d: broker read %d packets over WebSocket, %d over TCP; first difference at #%d", i, len(wRead), len(tRead), firstDiff(tRead, wRead)), wit)
		}
		if !wres.closed {
			rule := "C39/not-closed-after-disconnect"
			if text {
				rule = "C39/text-message-does-not-end-connection"
			}
			c.Violate(rule, attrs, fmt.Sprintf("session %d: connection still open 10 s after the final message (%d of %d replies had arrived)", i, wres.nReplies, want), wit)
		}
		if wt.nonBinary {
			c.Violate("C39/non-binary-reply", attrs, fmt.Sprintf("session %d: broker sent a non-binary WebSocket message", i), wit)
		}
		if !text {
			switch {
			case wres.decodeErr != nil:
				c.Violate("C39/replies-not-intact", attrs, fmt.Sprintf("session %d: replies received over WebSocket do not decode: %v", i, wres.decodeErr), wit)
			case tres.decodeErr != nil:
				c.Inconclusive(fmt.Sprintf("session %d: TCP replies do not decode: %v", i, tres.decodeErr))
			case !eqStrs(tres.descr, wres.descr):
				c.Violate("C39/replies-differ", attrs, fmt.Sprintf("session %d: %d reply packets over WebSocket vs %d over TCP (owed %d); first difference at #%d: %s", i, len(wres.descr), len(tres.descr), want, firstDiff(tres.descr, wres.descr), diffAt(tres.descr, wres.descr)), wit)
			case len(wres.descr) != want:
				c.Inconclusive(fmt.Sprintf("session %d: both transports returned %d packets, harness expected %d", i, len(wres.descr), want))
			}
		}
		c.Count("sessions", 1)
		c.Count("packets_read_by_broker", int64(len(wRead)))
		c.Count("reply_bytes", int64(len(wres.replies)))
		c.Count("reply_packets", int64(len(wres.descr)))
		c.Count("empty_binary_messages", int64(nEmpty))
		if text {
			c.Count("text_message_sessions", 1)
			if s.EmptyBefore {
				c.Count("text_directly_after_empty_binary_message", 1)
			}
			if s.TextKind > 0 {
				c.Count("text_messages_carrying_a_wellformed_packet", 1)
			}
		}
		if spanning {
			c.Count("sessions_with_packet_spanning_messages", 1)
		}
		if multi {
			c.Count("sessions_with_several_packets_in_one_message", 1)
		}
		c.Eval(vk.Hash("c39", i, s.Cuts, s.Frag, s.TextAt), spanning || multi)
		if i < 3 {
			c.Sample(map[string]any{"witness": wit, "packets_read": len(wRead), "reply_packets": len(wres.descr)})
		}
	})
	c.MinEvents["sessions"] = int64(n / 2)
	c.MinEvents["sessions_with_packet_spanning_messages"] = int64(n / 10)
	c.MinEvents["sessions_with_several_packets_in_one_message"] = int64(n / 10)
	c.MinEvents["text_message_sessions"] = 10
}

func firstDiff(a, b []string) int {
	for i := 0; i < len(a) && i < len(b); i++ {
		if a[i] != b[i] {
			return i
		}
	}
	if len(a) < len(b) {
		return len(a)
	}
	return len(b)
}

func diffAt(a, b []string) string {
	i := firstDiff(a, b)
	x, y := "(none)", "(none)"
	if i < len(a) {
		x = a[i]
	}
	if i < len(b) {
		y = b[i]
	}
	if len(x) > 160 {
		x = x[:160] + "..."
	}
	if len(y) > 160 {
		y = y[:160] + "..."
	}
	return "tcp " + x + " | ws " + y
}
