package main

import (
	"os"
	"strconv"
)

func vkEnvInt(name string, def int) int {
	if s := os.Getenv(name); s != "" {
		if v, err := strconv.Atoi(s); err == nil {
			return v
		}
	}
	return def
}
