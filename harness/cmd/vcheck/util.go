package main

import (
	"io"
	"log/slog"
	"os"
	"strconv"
)

func vkEnvInt(name string, def int) int {
	if s := os.Getenv(name); s != "" {
		if v, err := strconv.Atoi(s); err == nil {
			return v
		}
	}
	return def
}

func quietLogger() *slog.Logger { return slog.New(slog.NewTextHandler(io.Discard, &slog.HandlerOptions{Level: slog.LevelError + 100})) }
