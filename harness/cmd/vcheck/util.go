package main

import (
	"io"
	"log/slog"
	"os"
	"strconv"
)

func vkEnvInt(name string, def int) int {
	if s := os.Getenv(name); s != "" {
		if v, err := strconv.Atoi(s); err == nil {
			return v
		}
	}
	return def
}

func quietLogger() *slog.Logger {
	return slog.New(slog.NewTextHandler(io.Discard, &slog.HandlerOptions{Level: slog.LevelError + 100}))
}

func unhexs(s string) []byte {
	var out []byte
	var cur, n byte
	for i := 0; i < len(s); i++ {
		ch := s[i]
		var v byte
		switch {
		case ch >= '0' && ch <= '9':
			v = ch - '0'
		case ch >= 'a' && ch <= 'f':
			v = ch - 'a' + 10
		case ch >= 'A' && ch <= 'F':
			v = ch - 'A' + 10
		default:
			continue
		}
		cur = cur<<4 | v
		n++
		if n == 2 {
			out = append(out, cur)
			cur, n = 0, 0
		}
	}
	return out
}

func trunc(b []byte) string {
	if len(b) > 300 {
		return string(b[:300]) + "…"
	}
	return string(b)
}
