package main

import (
	"bytes"
	"encoding/json"
	"fmt"
	"os"
	"os/exec"
	"path/filepath"
	"regexp"
	"sort"
	"strings"
	"sync"

	"verif/harness/vk"
)

func init() { register("C33", "exploration", checkC33) }

type raceReport struct {
	Key    string // unordered pair of innermost broker functions
	Funcs  [2]string
	Kinds  [2]string // read / write
	Text   string
	Broker [2]bool // stack contains a broker frame
}

var reAccess = regexp.MustCompile(`^(Read|Write|Previous read|Previous write|Atomic read|Atomic write|Previous atomic read|Previous atomic write) at 0x[0-9a-f]+ by `)

const brokerPkg = "github.com/mochi-mqtt/server/v2"

func parseRaceLog(text string) []raceReport {
	var out []raceReport
	for _, blk := range strings.Split(text, "==================") {
		if !strings.Contains(blk, "WARNING: DATA RACE") {
			continue
		}
		lines := strings.Split(blk, "\n")
		var rep raceReport
		rep.Text = strings.TrimSpace(blk)
		n := 0
		for i := 0; i < len(lines) && n < 2; i++ {
			m := reAccess.FindStringSubmatch(lines[i])
			if m == nil {
				continue
			}
			kind := "read"
			if strings.Contains(strings.ToLower(m[1]), "write") {
				kind = "write"
			}
			fn := ""
			hasBroker := false
			for j := i + 1; j < len(lines) && strings.TrimSpace(lines[j]) != ""; j++ {
				l := lines[j]
				if strings.HasPrefix(l, "  ") && !strings.HasPrefix(l, "      ") {
					f := strings.TrimSpace(l)
					if k := strings.LastIndex(f, "("); k > 0 {
						f = f[:k]
					}
					if strings.HasPrefix(f, brokerPkg) {
						hasBroker = true
						if fn == "" {
							fn = strings.TrimPrefix(f, brokerPkg)
							fn = strings.TrimPrefix(fn, ".")
							fn = strings.TrimPrefix(fn, "/")
						}
					}
				}
			}
			rep.Funcs[n], rep.Kinds[n], rep.Broker[n] = fn, kind, hasBroker
			n++
		}
		a, b := rep.Funcs[0], rep.Funcs[1]
		if a > b {
			a, b = b, a
		}
		rep.Key = a + " <-> " + b
		out = append(out, rep)
	}
	return out
}

func runStressChildren(c *vk.Ctx, n int, label uint64, envExtra []string, binOverride string, par int) (stats []stressStats, opts []stressOpts, logs []string, died []string) {
	bin := os.Getenv("VERIF_BIN")
	if binOverride != "" {
		bin = binOverride
	}
	if bin == "" {
		bin, _ = os.Executable()
	}
	scratch := os.Getenv("VERIF_SCRATCH")
	if scratch == "" {
		scratch = os.TempDir()
	}
	stats = make([]stressStats, n)
	opts = make([]stressOpts, n)
	logs = make([]string, n)
	var mu sync.Mutex
	vk.Parallel(n, par, func(i int) {
		r := vk.Sub(c.Seed, label, uint64(i))
		o := stressOpts{Seed: int64(r.U64() >> 1), Clients: r.Range(6, 12), Ops: r.Range(150, 500), Serve: r.Chance(40), Sleeps: r.Chance(40), SmallBufs: r.Chance(40)}
		opts[i] = o
		ob, _ := json.Marshal(o)
		logBase := filepath.Join(scratch, fmt.Sprintf("stress-%d-%d", label, i))
		cmd := exec.Command("timeout", "-s", "QUIT", "120", bin, "child", "stress", string(ob))
		cmd.Env = append(append(os.Environ(), "GORACE=halt_on_error=0 exitcode=0 history_size=3 log_path="+logBase), envExtra...)
		var stderr bytes.Buffer
		cmd.Stderr = &stderr
		outb, err := cmd.Output()
		var st stressStats
		ok := false
		for _, ln := range bytes.Split(outb, []byte("\n")) {
			if len(ln) > 0 && ln[0] == '{' && json.Unmarshal(ln, &st) == nil {
				ok = true
			}
		}
		files, _ := filepath.Glob(logBase + ".*")
		var sb strings.Builder
		for _, f := range files {
			b, _ := os.ReadFile(f)
			sb.Write(b)
			os.Remove(f)
		}
		mu.Lock()
		stats[i], logs[i] = st, sb.String()
		if err != nil || !ok {
			died = append(died, fmt.Sprintf("run %d (%s): %v; stderr tail: %s", i, string(ob), err, tailStr(stderr.String(), 1500)))
		}
		mu.Unlock()
	})
	return
}

func checkC33(c *vk.Ctx) {
	c.Rule = "child processes built with the race detector run the concurrent scenario: 6-12 client goroutines on in-memory connections over 6 client ids (takeovers), 150-500 unsynchronised operations each (CONNECT v3/v4/v5 with wills, delays, expiry, Receive Maximum, aliases; SUBSCRIBE/UNSUBSCRIBE incl. shared; PUBLISH QoS 0-2 retained/aliased/expiring; acks or withheld acks; PINGREQ; DISCONNECT, drops, keep-alive expiry), a housekeeping goroutine (expiry of clients/retained/in-flight with clocks up to far in the future, delayed wills, $SYS publication, inline Publish/Subscribe/Unsubscribe, Info.Clone), optionally Serve() with its event loop and a TCP listener, small buffers, PRNG sleeps at schedule points; Close() at the end. " +
		"Every 'WARNING: DATA RACE' report is parsed; a report whose two access stacks both contain broker frames is a violation keyed by the unordered pair of innermost broker functions; reports confined to harness code are harness defects. nontrivial = runs that completed their operations"
	c.Assumptions = []string{"the race detector only sees executed interleavings; runs and operations executed are reported", "housekeeping entry points are called from one goroutine, as the event loop does"}
	n := c.N(48, 600)
	stats, opts, logs, died := runStressChildren(c, n, 33, nil, "", 8)
	keys := map[string]int{}
	first := map[string]raceReport{}
	firstRun := map[string]int{}
	harness := 0
	for i, lg := range logs {
		seen := map[string]bool{}
		for _, rep := range parseRaceLog(lg) {
			c.Count("race_reports", 1)
			if !(rep.Broker[0] && rep.Broker[1]) {
				harness++
				if harness <= 3 {
					c.Note("race report without broker frames on both sides (harness): " + tailStr(rep.Text, 1200))
				}
				continue
			}
			if !seen[rep.Key] {
				seen[rep.Key] = true
				keys[rep.Key]++
			}
			if _, ok := first[rep.Key]; !ok {
				first[rep.Key], firstRun[rep.Key] = rep, i
			}
		}
	}
	ks := make([]string, 0, len(keys))
	for k := range keys {
		ks = append(ks, k)
	}
	sort.Strings(ks)
	perKey := map[string]int{}
	for _, k := range ks {
		rep := first[k]
		perKey[k] = keys[k]
		c.Seen("race_keys", k)
		c.Violate("C33/data-race", map[string]string{"pair": k}, fmt.Sprintf("data race between %s (%s) and %s (%s), seen in %d of %d runs", rep.Funcs[0], rep.Kinds[0], rep.Funcs[1], rep.Kinds[1], keys[k], n),
			map[string]any{"report": rep.Text, "run_options": opts[firstRun[k]], "runs_showing_it": keys[k]})
	}
	c.Extra("race_keys_runs", perKey)
	c.Count("harness_only_race_reports", int64(harness))
	var totalOps, recv, house, pingLost int64
	for i, st := range stats {
		ops := int64(0)
		for k, v := range st.Ops {
			ops += v
			c.Count("op_"+k, v)
		}
		totalOps += ops
		recv += st.Received
		house += st.Houseruns
		pingLost += st.PingLost
		c.Count("runs", 1)
		if st.CloseOK {
			c.Count("runs_closed_cleanly", 1)
		}
		c.Eval(vk.Hash("c33", i, opts[i]), ops > 0)
		if i < 2 {
			c.Sample(map[string]any{"options": opts[i], "stats": st})
		}
	}
	c.Count("operations", totalOps)
	c.Count("packets_received_by_clients", recv)
	c.Count("housekeeping_rounds", house)
	for _, d := range died {
		c.Inconclusive("stress child did not finish: " + d)
		if strings.Contains(d, "panic:") || strings.Contains(d, "fatal error:") {
			c.Violate("C33/process-died", map[string]string{"kind": "panic-or-fatal"}, "the broker process died during the concurrent scenario: "+tailStr(d, 1500), nil)
		}
	}
	c.MinEvents["runs"] = int64(n)
	c.MinEvents["operations"] = int64(n) * 500
	c.MinEvents["runs_closed_cleanly"] = int64(n / 2)
	if harness > 0 {
		fmt.Printf("NOTE: %d race report(s) confined to harness code (harness defect, no verdict)\n", harness)
	}
}
