package main

import (
	"verif/harness/hist"
	rc "verif/harness/refcodec"
	"verif/harness/vk"
)

func init() {
	register("C08", "exploration", checkC08)
	register("C09", "exploration", checkC09)
	register("C10", "exploration", checkC10)
	register("C11", "exploration", checkC11)
	register("C12", "exploration", checkC12)
}

func qosProfile() *hist.Profile {
	p := deliveryProfile()
	p.Name = "qos"
	p.IDs = []string{"c0", "c1", "c2"}
	p.SlotIDs = []int{0, 1, 2, 0} // slot 3 shares c0's id (takeovers)
	p.Versions = []byte{4, 5, 5}
	p.Topics = []string{"a", "a/b", "b"}
	p.Filters = []string{"a", "a/b", "a/#", "#", "b"}
	p.PubQoS = []byte{1, 2, 2, 0}
	p.SubQoS = []byte{1, 2, 2}
	p.MaxQoS = []byte{2}
	p.RetainPct = 0
	p.NLPct = 0
	p.SubIDPct = 0
	p.RH = []byte{0}
	p.PropsPct = 10
	p.RPI0Pct = 0
	p.CleanPct = 15
	p.Expiry = []uint32{300, 300, 0}
	p.MultiFilter = false
	p.NoSelfTakeover = false
	p.HowDisc = []string{"drop", "drop", "normal"}
	p.TakeoverSafe = false
	return p
}

func checkC08(c *vk.Ctx) {
	c.Rule = "random histories in which a publisher sends a QoS 2 PUBLISH, 0-3 DUP retransmissions with the same packet id, optionally drops and reconnects (clean start 0, session present) between any two packets, then PUBREL; other clients' traffic interleaved; a quarter of the withheld publishes use the packet id the broker will assign next to a message for the publisher itself: " +
		"each such message must reach every entitled subscriber exactly once (unique payloads) and every retransmission must be answered with a PUBREC whose reason code is < 0x80. nontrivial = histories with >=1 retransmission"
	p := qosProfile()
	p.Name = "qos2in"
	p.DupQ2Pct = 70
	p.CollideNextPct = 25 // some publishes use the id the broker is about to hand out towards the publisher itself
	p.SlotIDs = []int{0, 1, 2}
	p.NoSelfTakeover = true
	p.W = map[string]int{"connect": 4, "subscribe": 4, "publish": 8, "disconnect": 2, "retransmit": 6, "pubrel": 4, "ping": 1}
	h := &histRun{Prop: "C08", Profile: p, N: c.N(300, 8000), Label: 8, Nontrivial: []string{"qos2_retransmissions"}, Rules: []string{"C08/", "C03/duplicate-delivery", "C03/missing-delivery", "C03/unentitled-delivery"}}
	h.run(c)
	c.MinEvents["qos2_retransmissions"] = 200
}

func checkC09(c *vk.Ctx) {
	c.Rule = "random histories with QoS 1/2 deliveries to subscribers that withhold acknowledgements (PUBACK, PUBREC, PUBCOMP held at every point of the exchange), drop and reconnect with clean start 0 or 1, are taken over by a second connection with the same id, or are offline while messages queue; Receive Maximum 0/1/2/3 on subscribers (deferral). " +
		"After every CONNACK with session present the model's unacknowledged set must be redelivered: same packet id, DUP=1 for messages sent before, PUBREL (not PUBLISH) after PUBREC, nothing after PUBACK/PUBCOMP, nothing after clean start. nontrivial = histories with >=1 resumed session holding unacknowledged messages"
	c.Assumptions = []string{"messages first transmitted on a resumed connection may carry DUP 0 or 1 (statement speaks of redeliveries)", "sessions in which a message was deferred behind Receive Maximum or the client reused an outstanding id are tainted; findings on them match the recorded known findings only by those attributes"}
	p := qosProfile()
	p.Name = "resume"
	p.RecvMax = []uint16{0, 0, 0, 1, 2, 3}
	p.W = map[string]int{"connect": 6, "subscribe": 4, "publish": 10, "disconnect": 4, "hold": 4, "ping": 1}
	p.W["ackone"] = 5
	p.W["failwrite"] = 3
	h := &histRun{Prop: "C09", Profile: p, N: c.N(400, 10000), Label: 9, Nontrivial: []string{"sessions_resumed"}}
	h.run(c)
	// second series: housekeeping sweeps of the in-flight store run between the steps (small virtual time steps, far
	// from the session expiry of 300 s), in a third of the histories with the server's maximum message expiry switched
	// off: a record of an exchange in progress (PUBREL after PUBREC) is not a message and must survive them. No client
	// announces a Receive Maximum here: what the sweeps do to messages held back by flow control belongs to the recorded
	// findings of the deferred-send machinery and is kept out of this series.
	p2 := qosProfile()
	p2.Name = "resume-sweep"
	p2.RecvMax = []uint16{0}
	p2.W = map[string]int{"connect": 6, "subscribe": 4, "publish": 10, "disconnect": 4, "hold": 4, "ping": 1, "ackone": 5, "failwrite": 3, "tick": 3}
	p2.TickDelta = []int64{7, 13}
	p2.MaxMsgExp = []int64{0, 0, -1}
	h2 := &histRun{Prop: "C09", Profile: p2, N: c.N(200, 4000), Label: 902, Nontrivial: []string{"sessions_resumed"}}
	h2.run(c)
	// probe for the recorded finding: a message released from the flow-control queue is not redelivered
	cfg := &hist.Config{MaxQoS: 2, RetainAvailable: true}
	sub := []rc.SubFilter{{Filter: "t", Options: 1}}
	h.directed(c, "deferred-not-resent", cfg, []string{"s", "p"}, []hist.Op{
		{Kind: "connect", C: 0, Ver: 5, Clean: true, Expiry: 300, ExpirySet: true, RecvMax: 1},
		{Kind: "subscribe", C: 0, Filters: sub},
		{Kind: "connect", C: 1, Ver: 5, Clean: true},
		{Kind: "hold", C: 0, Hold: true},
		{Kind: "publish", C: 1, Topic: "t", QoS: 1},
		{Kind: "publish", C: 1, Topic: "t", QoS: 1},
		{Kind: "ackone", C: 0},
		{Kind: "disconnect", C: 0, How: "drop"},
		{Kind: "connect", C: 0, Ver: 5, Clean: false, Expiry: 300, ExpirySet: true, RecvMax: 1},
	})
	c.MinEvents["sessions_resumed"] = 200
}

func checkC10(c *vk.Ctx) {
	c.Rule = "random histories in which clients withhold acknowledgements so that broker-outbound packet ids stay outstanding, and deliberately reuse those ids for their own QoS 1/2 publishes (learnt from the wire), acknowledging in adversarial order; plus packet-id wrap-around, and bursts from 8 publisher connections at once (150 QoS 1 messages each, one write per publisher) to a subscriber that acknowledges nothing, half of them with the id counter about to pass 65535. " +
		"Checked: every outbound QoS>0 PUBLISH (DUP=0) has an id in 1..65535 not used by another unacknowledged outbound message on that connection; after an id collision the outbound message is still redelivered on reconnect and completed only by the client's acknowledgement. nontrivial = histories with >=1 outbound QoS>0 delivery"
	p := qosProfile()
	p.Name = "ids"
	p.CollidePct = 35
	p.W = map[string]int{"connect": 4, "subscribe": 4, "publish": 12, "disconnect": 2, "hold": 5, "ping": 1, "pubrel": 3}
	h := &histRun{Prop: "C10", Profile: p, N: c.N(300, 8000), Label: 10, Nontrivial: []string{"rx_PUBLISH"}, Rules: []string{"C10/", "C09/"}}
	h.run(c)
	c.MinEvents["rx_PUBLISH"] = 500
	c.MinEvents["own_publish_with_colliding_id"] = 50
	c10Wraparound(c)
	c10Concurrent(c)
}

func checkC11(c *vk.Ctx) {
	c.Rule = "random histories with subscriber Receive Maximum 1-3, server Receive Maximum 1-4, bursts of QoS 1/2 publishes in both directions and acknowledgements withheld/released in random order: (out) unacknowledged QoS>0 PUBLISH in transit per connection never exceeds the client's Receive Maximum (PUBREC does not release); " +
		"(in) no DISCONNECT 0x93 while the client keeps its own unacknowledged QoS>0 publishes within the CONNACK Receive Maximum (QoS 0 never counts); (progress) after the client acknowledged everything and pinged, nothing is still held back. nontrivial = histories with >=1 message deferred by the model"
	p := qosProfile()
	p.Name = "flow"
	p.SlotIDs = []int{0, 1, 2}
	p.NoSelfTakeover = true
	p.Versions = []byte{5}
	p.RecvMax = []uint16{1, 2, 3}
	p.CleanPct = 100
	p.Expiry = []uint32{0}
	p.HowDisc = []string{"normal"}
	p.W = map[string]int{"connect": 2, "subscribe": 4, "publish": 14, "hold": 4, "ping": 3, "ackone": 5}
	h := &histRun{Prop: "C11", Profile: p, N: c.N(300, 8000), Label: 11, Nontrivial: []string{"deferred_by_receive_maximum"}}
	h.run(c)
	c.MinEvents["deferred_by_receive_maximum"] = 100
	// probe for the recorded finding: after one deferral the session's send quota is never returned
	sub := []rc.SubFilter{{Filter: "t", Options: 1}}
	h.directed(c, "deferred-wedge", &hist.Config{MaxQoS: 2, RetainAvailable: true}, []string{"s", "p"}, []hist.Op{
		{Kind: "connect", C: 0, Ver: 5, Clean: true, RecvMax: 1},
		{Kind: "subscribe", C: 0, Filters: sub},
		{Kind: "connect", C: 1, Ver: 5, Clean: true},
		{Kind: "hold", C: 0, Hold: true},
		{Kind: "publish", C: 1, Topic: "t", QoS: 1},
		{Kind: "publish", C: 1, Topic: "t", QoS: 1},
		{Kind: "publish", C: 1, Topic: "t", QoS: 1},
		{Kind: "hold", C: 0, Hold: false},
		{Kind: "ping", C: 0, N: 2},
	})
	c11Inbound(c)
	// inbound quota under refused publishes: publishers only (no subscriptions, so the recorded cross-direction quota
	// findings cannot interfere), server Receive Maximum 1-3, a third of the publishes denied by the ACL, some to $SYS
	// topics; the clients acknowledge-wait after every publish, so they never exceed the advertised Receive Maximum.
	p3 := qosProfile()
	p3.Name = "flow-refused"
	p3.SlotIDs = []int{0, 1}
	p3.NoSelfTakeover = true
	p3.Versions = []byte{5, 5, 4}
	p3.RecvMax = nil
	p3.CleanPct = 100
	p3.Expiry = []uint32{0}
	p3.DenyPct = 35
	p3.BadTopicPct = 15
	p3.PubQoS = []byte{1, 2, 2}
	p3.MaxQoS = []byte{2, 2, 1}
	p3.HowDisc = []string{"normal"}
	p3.Steps = [2]int{25, 50}
	p3.W = map[string]int{"connect": 2, "publish": 20, "ping": 2}
	h3 := &histRun{Prop: "C11", Profile: p3, N: c.N(200, 5000), Label: 1103, Nontrivial: []string{"publish_denied", "publish_refused_topic"},
		Mutate: func(r *vk.Rand, cfg *hist.Config, ops []hist.Op) []hist.Op {
			cfg.ServerRecvMax = uint16(r.Range(1, 3))
			return ops
		}}
	h3.run(c)
	c.MinEvents["publish_denied"] = 200
	// flow control across session resumption, outbound: subscribers keep their sessions, drop and come back announcing
	// another Receive Maximum (often a smaller one) while acknowledgements are withheld
	p4 := qosProfile()
	p4.Name = "flow-resume-out"
	p4.SlotIDs = []int{0, 1, 2}
	p4.NoSelfTakeover = true
	p4.Versions = []byte{5}
	p4.RecvMax = []uint16{4, 1, 2, 1}
	p4.CleanPct = 0
	p4.Expiry = []uint32{300}
	p4.HowDisc = []string{"drop", "normal"}
	p4.W = map[string]int{"connect": 3, "subscribe": 4, "publish": 14, "hold": 4, "ping": 2, "ackone": 4, "disconnect": 3}
	h4 := &histRun{Prop: "C11", Profile: p4, N: c.N(150, 4000), Label: 1104, Rules: []string{"C11/"}, Nontrivial: []string{"sessions_resumed"}}
	h4.run(c)
	// ... and inbound: publishers only, server Receive Maximum 1-2, QoS 2 publishes whose PUBREL is withheld across a
	// drop and a resumed session, then retransmitted (DUP) and released: the retransmission is not a further publish
	p5 := qosProfile()
	p5.Name = "flow-resume-in"
	p5.SlotIDs = []int{0, 1}
	p5.NoSelfTakeover = true
	p5.Versions = []byte{5, 5, 4}
	p5.RecvMax = nil
	p5.CleanPct = 0
	p5.Expiry = []uint32{300}
	p5.DupQ2Pct = 70
	p5.PubQoS = []byte{2, 2, 1}
	p5.HowDisc = []string{"drop"}
	p5.W = map[string]int{"connect": 4, "publish": 10, "disconnect": 3, "retransmit": 6, "pubrel": 5, "ping": 1}
	h5 := &histRun{Prop: "C11", Profile: p5, N: c.N(150, 4000), Label: 1105, Rules: []string{"C11/"}, Nontrivial: []string{"qos2_retransmissions"},
		Mutate: func(r *vk.Rand, cfg *hist.Config, ops []hist.Op) []hist.Op {
			cfg.ServerRecvMax = uint16(r.Range(1, 2))
			return ops
		}}
	h5.run(c)
}

func checkC12(c *vk.Ctx) {
	c.Rule = "random publish streams from few publishers on 1-2 topics to non-shared subscribers with Receive Maximum 0-2 (deferral) that withhold acknowledgements, drop and reconnect (resends): for any two messages of one publisher on one topic delivered to the same subscriber at the same QoS, first transmissions must arrive in publish order. nontrivial = histories with >=2 deliveries to one subscriber"
	p := qosProfile()
	p.Name = "order"
	p.SlotIDs = []int{0, 1, 2}
	p.NoSelfTakeover = true
	p.Topics = []string{"a", "a/b"}
	p.Filters = []string{"a", "a/#", "#"}
	p.SubQoS = []byte{1, 2}
	p.PubQoS = []byte{1, 2, 1}
	p.RecvMax = []uint16{0, 0, 1, 2}
	p.Steps = [2]int{30, 70}
	p.W = map[string]int{"connect": 4, "subscribe": 3, "publish": 20, "disconnect": 3, "hold": 4, "ping": 2, "ackone": 5}
	h := &histRun{Prop: "C12", Profile: p, N: c.N(300, 8000), Label: 12, Nontrivial: []string{"publish_delivered"}}
	h.run(c)
	c.MinEvents["publish_delivered"] = 1000
	// backlog variant: subscribers that temporarily refuse the broker's writes (backpressure) so that several
	// messages of different sizes queue up behind a small write buffer and are flushed in one go
	pb := *p
	pb.Name = "order-backlog"
	pb.RecvMax = nil
	pb.Size = []int{0, 0, 10, 60, 200, 600}
	pb.PubQoS = []byte{0, 0, 1, 2}
	pb.SubQoS = []byte{0} // a QoS>0 delivery to a stalled connection makes the publisher wait for the subscriber's client lock (held across the blocked write)
	pb.W = map[string]int{"connect": 3, "subscribe": 3, "publish": 24, "disconnect": 1, "stall": 5, "ping": 1}
	hb := &histRun{Prop: "C12", Profile: &pb, N: c.N(300, 8000), Label: 1202, Nontrivial: []string{"stall_toggles"},
		Mutate: func(r *vk.Rand, cfg *hist.Config, ops []hist.Op) []hist.Op {
			cfg.WriteBuf = vk.Pick(r, []int{16, 64, 256, 2048})
			return ops
		}}
	hb.run(c)
	c.MinEvents["stall_toggles"] = 500
}
