package main

import (
	"fmt"
	"sort"
	"strings"
	"sync/atomic"
	"time"

	mqtt "github.com/mochi-mqtt/server/v2"

	"verif/harness/eng"
	rc "verif/harness/refcodec"
	"verif/harness/vk"
)

func init() { register("C35", "fault_enumeration", checkC35) }

type c35Case struct {
	Limit    int    `json:"limit"`
	Pre      int    `json:"pre_established"`
	Burst    int    `json:"burst"`
	Vers     []byte `json:"versions"`
	Takeover bool   `json:"burst_contains_takeover_of_established_id"`
	Mode     string `json:"mode"` // park-all-release-together | park-release-order | yields | sequential
	Order    []int  `json:"release_order,omitempty"`
	Point    string `json:"point"`
}

func permutations(n int) [][]int {
	var out [][]int
	var rec func(cur []int, used int)
	rec = func(cur []int, used int) {
		if len(cur) == n {
			out = append(out, append([]int{}, cur...))
			return
		}
		for i := 0; i < n; i++ {
			if used&(1<<i) == 0 {
				rec(append(cur, i), used|1<<i)
			}
		}
	}
	rec(nil, 0)
	return out
}

// runC35 executes one burst and returns (max simultaneously established, admitted, wrong-refusal details, reached).
func runC35(cs c35Case, r *vk.Rand) (maxSim int, admitted int, wrong []string, reached bool, trace []string) {
	b := eng.NewBroker(eng.Options{Caps: func(c *mqtt.Capabilities) { c.MaximumClients = int64(cs.Limit) }})
	defer b.Shutdown()
	ctl := b.EnableControl()
	defer b.DisableControl()
	var all []*eng.Client
	vers := map[*eng.Client]byte{}
	for i := 0; i < cs.Pre; i++ {
		d, rx := dConnect(b, 5, fmt.Sprintf("pre%d", i), true, nil, nil)
		if ca := hasType(rx, rc.CONNACK); ca == nil || ca.Reason != 0 {
			return 0, 0, nil, false, nil
		}
		all = append(all, d.Client)
		vers[d.Client] = 5
	}
	switch cs.Mode {
	case "park-all-release-together", "park-release-order":
		ctl.ParkAt(cs.Point, "*")
	case "yields":
		var seed atomic.Uint64
		seed.Store(r.U64())
		ctl.Sleep = func(point string) time.Duration {
			v := seed.Add(0x9E3779B97F4A7C15)
			v = (v ^ (v >> 30)) * 0xBF58476D1CE4E5B9
			return time.Duration((v>>33)%150) * time.Microsecond
		}
	}
	var burst []*eng.Client
	for i := 0; i < cs.Burst; i++ {
		cl := b.Attach()
		v := cs.Vers[i%len(cs.Vers)]
		cl.Version = v
		id := fmt.Sprintf("b%d", i)
		if cs.Takeover && i == 0 && cs.Pre > 0 {
			id = "pre0"
		}
		p := &rc.Packet{Type: rc.CONNECT, ProtoLevel: v, ProtoName: "MQTT", ClientID: id, ConnectFlags: 2}
		if v == 3 {
			p.ProtoName = "MQIsdp"
		}
		cl.Send(p, rc.FormAuto)
		burst = append(burst, cl)
		vers[cl] = v
		if cs.Mode == "sequential" {
			b.Quiesce(5 * time.Second)
		}
	}
	all = append(all, burst...)
	reached = true
	switch cs.Mode {
	case "park-all-release-together":
		// every connection that passes the limit test is held; the others have been refused already
		b.Quiesce(5 * time.Second)
		ctl.Release(cs.Point, "*")
	case "park-release-order":
		b.Quiesce(5 * time.Second)
		for _, k := range cs.Order {
			ctl.ReleaseConn(cs.Point, "*", burst[k])
			if r.Bool() {
				b.Quiesce(5 * time.Second)
			}
		}
		ctl.Release(cs.Point, "*")
	}
	if !b.Quiesce(10 * time.Second) {
		return 0, 0, nil, false, nil
	}
	trace = ctl.Trace()
	// wire-level reconstruction over the global sequence order
	type ev struct {
		seq   int64
		delta int
	}
	var evs []ev
	for _, cl := range all {
		rx := cl.Drain()
		_ = rx
		var ca *eng.RxPacket
		for _, p := range cl.Inbox {
			if p.P.Type == rc.CONNACK {
				ca = p
				break
			}
		}
		closed, cseq := cl.MC.BrokerClosed()
		if cl.DecErr != nil {
			wrong = append(wrong, fmt.Sprintf("%s (MQTT %d): broker output not decodable for that protocol version: %v", cl.Name, vers[cl], cl.DecErr))
			continue
		}
		if ca == nil {
			if !closed {
				wrong = append(wrong, fmt.Sprintf("%s: neither CONNACK nor close", cl.Name))
			}
			continue
		}
		if ca.P.Reason == 0 {
			admitted++
			evs = append(evs, ev{ca.Seq, +1})
			if closed {
				evs = append(evs, ev{cseq, -1})
			}
			continue
		}
		want := byte(0x89)
		if vers[cl] < 5 {
			want = 0x03
		}
		if ca.P.Reason != want {
			wrong = append(wrong, fmt.Sprintf("%s (MQTT %d): refused with CONNACK 0x%02x, expected 0x%02x", cl.Name, vers[cl], ca.P.Reason, want))
		}
		if !closed {
			wrong = append(wrong, fmt.Sprintf("%s: connection still open after failure CONNACK", cl.Name))
		}
	}
	sort.Slice(evs, func(i, j int) bool { return evs[i].seq < evs[j].seq })
	cur := 0
	for _, e := range evs {
		cur += e.delta
		if cur > maxSim {
			maxSim = cur
		}
	}
	return
}

func checkC35(c *vk.Ctx) {
	c.Rule = "for MaximumClients 1-4 x 0..limit pre-established connections x bursts of 2..limit+3 CONNECTs (v3/v4/v5 mixed; optionally one of them taking over an established id): (a) every burst connection parked at the schedule point between the limit test and the connected-counter update and then released together, (b) released one by one in EVERY order (bursts <= 4; PRNG orders above), (c) un-parked with PRNG sleeps of 0-150 us at every schedule point, (d) sequential baseline. " +
		"From the global event order: the number of connections that hold a success CONNACK and are not yet closed never exceeds the limit; every refused attempt got CONNACK 0x89 (v5) / 0x03 (v3) and was closed. nontrivial = schedules in which more connections passed or attempted the limit test than free slots existed"
	c.Exhaustive = true
	c.Assumptions = []string{"schedule points are placed between critical sections only (after the limit test, before validation/auth/counter update), so every enumerated order is one the Go scheduler can produce",
		"a takeover attempt at the limit may be refused (the statement does not require admitting it); only the bound and the refusal code are checked"}
	var cases []c35Case
	limits := []int{1, 2, 3, 4}
	for _, L := range limits {
		for pre := 0; pre <= L; pre++ {
			for burst := 2; burst <= L+3-pre && burst <= 5; burst++ {
				if pre+burst <= L {
					continue // no contention
				}
				for vi, vers := range [][]byte{{5}, {4, 5}, {3, 5, 4}} {
					for _, tk := range []bool{false, true} {
						if tk && pre == 0 {
							continue
						}
						for _, point := range []string{"attach.limit_checked", "attach.limit_check"} {
							base := c35Case{Limit: L, Pre: pre, Burst: burst, Vers: vers, Takeover: tk, Point: point}
							x := base
							x.Mode = "park-all-release-together"
							cases = append(cases, x)
							if point == "attach.limit_checked" && (c.Tier == "thorough" || vi == 1) {
								if burst <= 4 {
									for _, o := range permutations(burst) {
										y := base
										y.Mode, y.Order = "park-release-order", o
										cases = append(cases, y)
									}
								}
							}
							if point == "attach.limit_checked" {
								for k := 0; k < c.N(2, 10); k++ {
									y := base
									y.Mode = "yields"
									cases = append(cases, y)
								}
								y := base
								y.Mode = "sequential"
								cases = append(cases, y)
							}
						}
					}
				}
			}
		}
	}
	vk.Parallel(len(cases), 0, func(i int) {
		cs := cases[i]
		r := vk.Sub(c.Seed, 35, uint64(i))
		if cs.Mode == "park-release-order" && cs.Burst > 4 {
			cs.Order = r.Perm(cs.Burst)
		}
		maxSim, admitted, wrong, reached, trace := runC35(cs, r)
		if !reached {
			maxSim, admitted, wrong, reached, trace = runC35(cs, r)
			if !reached {
				c.Inconclusive(fmt.Sprintf("C35 case %d: schedule not reached / quiescence timeout", i))
				return
			}
		}
		attrs := map[string]string{"mode": cs.Mode, "takeover": fmt.Sprint(cs.Takeover), "point": cs.Point}
		if maxSim > cs.Limit {
			c.Violate("C35/limit-exceeded", attrs, fmt.Sprintf("MaximumClients=%d: %d connections held a success CONNACK at the same time (%d pre-established, burst of %d, mode %s, order %v)", cs.Limit, maxSim, cs.Pre, cs.Burst, cs.Mode, cs.Order),
				map[string]any{"case": cs, "schedule_points": trace})
		}
		if len(wrong) > 0 {
			c.Violate("C35/refusal", attrs, strings.Join(wrong, "; "), map[string]any{"case": cs, "schedule_points": trace})
		}
		c.Count("schedules", 1)
		c.Count("admitted", int64(admitted))
		c.Count("refused", int64(cs.Pre+cs.Burst-admitted))
		if maxSim == cs.Limit {
			c.Count("schedules_reaching_the_limit", 1)
		}
		c.Seen("interleavings", fmt.Sprintf("%s|L%d|p%d|b%d|%v|%v|%s", cs.Mode, cs.Limit, cs.Pre, cs.Burst, cs.Order, cs.Takeover, cs.Point))
		if cs.Mode == "yields" {
			c.Seen("yield_point_orders", strings.Join(trace, ","))
		}
		c.Eval(vk.Hash("c35", i, cs), true)
		if i%97 == 0 {
			c.Sample(map[string]any{"case": cs, "max_simultaneous": maxSim, "admitted": admitted})
		}
	})
	c35ReturningSessions(c)
	c.MinEvents["schedules"] = 100
	c.MinEvents["returning_session_cases"] = 20
	c.MinEvents["refused"] = 100
	c.MinEvents["schedules_reaching_the_limit"] = 50
}

// c35ReturningSessions: clients whose sessions are stored but which hold no connection do not occupy a place, and do
// not get one for free either. k clients with persistent sessions connect and leave, the server is filled with
// limit other clients, then the k come back (clean start 0 or 1); after every step the connections that hold a success
// CONNACK and are still open are counted.
func c35ReturningSessions(c *vk.Ctx) {
	type conn struct {
		d  *dconn
		ok bool
	}
	for _, L := range []int{1, 2, 3} {
		for _, ver := range []byte{4, 5} {
			for k := 1; k <= 2; k++ {
				for _, cleanBack := range []bool{false, true} {
					for _, leave := range []string{"disconnect", "drop"} {
						b := eng.NewBroker(eng.Options{Caps: func(cp *mqtt.Capabilities) { cp.MaximumClients = int64(L) }})
						var all []*conn
						open := func() int {
							n := 0
							for _, x := range all {
								if x.ok && !x.d.closed() {
									n++
								}
							}
							return n
						}
						attrs := map[string]string{"mode": "returning-session", "takeover": "false", "point": "none"}
						worst, trace := 0, []string{}
						connect := func(id string, clean bool) *conn {
							var props rc.Props
							if ver == 5 {
								props = rc.Props{{ID: rc.PSessionExpiry, Num: 300}}
							}
							d, rx := dConnect(b, ver, id, clean, props, nil)
							ca := hasType(rx, rc.CONNACK)
							x := &conn{d: d, ok: ca != nil && ca.Reason == 0}
							all = append(all, x)
							trace = append(trace, fmt.Sprintf("%s clean=%v -> admitted=%v, open=%d", id, clean, x.ok, open()))
							if n := open(); n > worst {
								worst = n
							}
							return x
						}
						// the k sessions come into being one at a time (the limit may be 1) and leave again
						for i := 0; i < k; i++ {
							x := connect(fmt.Sprintf("s%d", i), false)
							if leave == "disconnect" {
								x.d.send(&rc.Packet{Type: rc.DISCONNECT})
							} else {
								x.d.MC.CloseByClient()
							}
							b.Quiesce(10 * time.Second)
						}
						for i := 0; i < L; i++ {
							connect(fmt.Sprintf("f%d", i), true)
						}
						for i := 0; i < k; i++ {
							connect(fmt.Sprintf("s%d", i), cleanBack)
						}
						if worst > L {
							c.Violate("C35/limit-exceeded", attrs, fmt.Sprintf("MaximumClients=%d (MQTT %d): %d connections held a success CONNACK at the same time after %d clients with stored sessions (left by %s) came back to the full server with clean start %v", L, ver, worst, k, leave, cleanBack),
								map[string]any{"limit": L, "version": ver, "stored_sessions": k, "steps": trace})
						}
						c.Count("returning_session_cases", 1)
						c.Eval(vk.Hash("c35ret", L, ver, k, cleanBack, leave), true)
						b.Shutdown()
					}
				}
			}
		}
	}
}
