package main

import (
	"bufio"
	"bytes"
	"encoding/json"
	"fmt"
	"os"
	"os/exec"
	"path/filepath"
	"sort"
	"strings"
	"sync"

	"verif/harness/vk"
)

func init() { register("C32", "exploration", checkC32) }

type lmReport struct {
	Kind  string   `json:"kind"`
	Site  string   `json:"site"`
	Prev  string   `json:"earlier_site"`
	Chain []string `json:"chain"`
	Stack string   `json:"stack"`
}

func checkC32(c *vk.Ctx) {
	c.Rule = "the concurrent scenario of C33 (6-12 client goroutines over 6 client ids with takeovers, Receive Maximum deferral, acks, disconnects of every kind, housekeeping, inline API, optional Serve() event loop + TCP listener, Close() at the end) is run in child processes built from a scratch copy of /repo in which every sync.Mutex/RWMutex of the module is replaced by a monitoring lock (lockmon), with PRNG yields/sleeps at every lock boundary. " +
		"The monitor reports, on the executions themselves: a goroutine taking a read lock it already holds; a goroutine taking a lock it holds in write mode (or upgrading); a wait-for cycle among blocked goroutines (confirmed by the run not finishing). Bounded progress: every run must finish its operations, answer a final PINGREQ on each live connection and return from Close() within the watchdog. nontrivial = runs that finished and exercised >= 20 distinct lock sites"
	c.Assumptions = []string{"dynamic monitor: only executed lock paths are judged; lock sites reached and acquisition counts are listed in the evidence (the static survey of all lock nestings named in the property's quantifier is outside runtime monitoring)",
		"a reported wait-for cycle counts as a deadlock only when the run also failed to finish (the monitor's view of holders lags the real lock by a few instructions)"}
	bin := os.Getenv("VERIF_LOCKMON_BIN")
	if bin == "" {
		c.Inconclusive("VERIF_LOCKMON_BIN not set: run through ./check, which builds the lock-monitor binary")
		c.MinEvents["runs"] = 1
		return
	}
	scratch := os.Getenv("VERIF_SCRATCH")
	if scratch == "" {
		scratch = os.TempDir()
	}
	n := c.N(32, 400)
	sites := map[string]int64{}
	var mu sync.Mutex
	type runRes struct {
		reports  []lmReport
		finished bool
		st       stressStats
		o        stressOpts
		stderr   string
	}
	res := make([]runRes, n)
	vk.Parallel(n, 8, func(i int) {
		r := vk.Sub(c.Seed, 32, uint64(i))
		o := stressOpts{Seed: int64(r.U64() >> 1), Clients: r.Range(6, 12), Ops: r.Range(100, 300), Serve: r.Chance(40), Sleeps: r.Chance(30), SmallBufs: r.Chance(50)}
		ob, _ := json.Marshal(o)
		logf := filepath.Join(scratch, fmt.Sprintf("lockmon-%d.log", i))
		os.Remove(logf)
		cmd := exec.Command("timeout", "-s", "QUIT", "90", bin, "child", "stress", string(ob))
		cmd.Env = append(os.Environ(), "LOCKMON_LOG="+logf, fmt.Sprintf("LOCKMON_YIELD=%d", vk.Pick(r, []int{0, 10, 30, 60})), fmt.Sprintf("LOCKMON_SEED=%d", r.Intn(1<<30)))
		var stderr bytes.Buffer
		cmd.Stderr = &stderr
		outb, err := cmd.Output()
		rr := runRes{o: o}
		for _, ln := range bytes.Split(outb, []byte("\n")) {
			if len(ln) > 0 && ln[0] == '{' && json.Unmarshal(ln, &rr.st) == nil && err == nil {
				rr.finished = true
			}
		}
		rr.stderr = tailStr(stderr.String(), 3000)
		if f, e := os.Open(logf); e == nil {
			sc := bufio.NewScanner(f)
			sc.Buffer(make([]byte, 1<<20), 1<<26)
			for sc.Scan() {
				var m struct {
					Report *lmReport        `json:"report"`
					Sites  map[string]int64 `json:"sites"`
				}
				if json.Unmarshal(sc.Bytes(), &m) != nil {
					continue
				}
				if m.Report != nil {
					rr.reports = append(rr.reports, *m.Report)
				}
				if m.Sites != nil {
					mu.Lock()
					for k, v := range m.Sites {
						sites[k] += v
					}
					mu.Unlock()
				}
			}
			f.Close()
			os.Remove(logf)
		}
		res[i] = rr
	})
	seen := map[string]bool{}
	for i, rr := range res {
		c.Count("runs", 1)
		if rr.finished {
			c.Count("runs_finished", 1)
			if rr.st.CloseOK {
				c.Count("runs_closed_cleanly", 1)
			}
		}
		ops := int64(0)
		for _, v := range rr.st.Ops {
			ops += v
		}
		c.Count("operations", ops)
		c.Count("pings_answered", rr.st.PingOK)
		for _, rep := range rr.reports {
			c.Count("lockmon_reports", 1)
			key := rep.Kind + "|" + rep.Site + "|" + rep.Prev
			switch rep.Kind {
			case "reentrant-rlock", "self-deadlock":
				if !seen[key] {
					seen[key] = true
					c.Violate("C32/"+rep.Kind, map[string]string{"site": rep.Site, "earlier_site": rep.Prev}, fmt.Sprintf("%s: lock taken at %s while the same goroutine already holds it since %s", rep.Kind, rep.Site, rep.Prev), map[string]any{"report": rep, "run_options": rr.o})
				}
			case "wait-cycle":
				if !rr.finished {
					if !seen[key] {
						seen[key] = true
						c.Violate("C32/deadlock", map[string]string{"site": rep.Site}, "wait-for cycle among blocked goroutines and the run did not finish: "+strings.Join(rep.Chain, "; "), map[string]any{"report": rep, "run_options": rr.o, "stderr_tail": rr.stderr})
					}
				} else {
					c.Count("wait_cycles_not_confirmed", 1)
				}
			}
		}
		hasCycle := false
		for _, rep := range rr.reports {
			if rep.Kind != "reentrant-rlock" {
				hasCycle = true
			}
		}
		if !rr.finished && !hasCycle {
			if strings.Contains(rr.stderr, "panic:") || strings.Contains(rr.stderr, "fatal error:") {
				c.Violate("C32/process-died", map[string]string{"kind": "panic-or-fatal"}, "the broker process died during the concurrent scenario: "+tailStr(rr.stderr, 1500), map[string]any{"run_options": rr.o})
			} else {
				c.Inconclusive(fmt.Sprintf("run %d did not finish within the watchdog and the lock monitor shows no cycle: %s", i, tailStr(rr.stderr, 600)))
			}
		}
		if rr.finished && !rr.st.CloseOK {
			c.Violate("C32/close-did-not-return", nil, fmt.Sprintf("run %d: Server.Close() did not return within 20 s after all clients had finished", i), map[string]any{"run_options": rr.o})
		}
		if rr.st.PingLost > 0 {
			c.Inconclusive(fmt.Sprintf("run %d: %d final PINGREQ unanswered within 2 s on a connection that stayed open", i, rr.st.PingLost))
		}
		c.Eval(vk.Hash("c32", i, rr.o), rr.finished)
		if i < 2 {
			c.Sample(map[string]any{"options": rr.o, "stats": rr.st, "lockmon_reports": len(rr.reports)})
		}
	}
	ks := make([]string, 0, len(sites))
	for k := range sites {
		ks = append(ks, k)
	}
	sort.Strings(ks)
	c.Extra("lock_sites_exercised", sites)
	c.Count("distinct_lock_sites", int64(len(ks)))
	var total int64
	for _, v := range sites {
		total += v
	}
	c.Count("lock_acquisitions", total)
	c.MinEvents["runs_finished"] = int64(n / 2)
	c.MinEvents["distinct_lock_sites"] = 40
	c.MinEvents["lock_acquisitions"] = 100000
}
