// vcheck runs one property check: vcheck <id> <quick|thorough>.
// Exit codes: 0 held on everything explored, 1 violation (VIOLATION lines printed),
// 2 harness broken / monitor starved.
package main

import (
	"fmt"
	"os"
	"sort"
	"strconv"

	"verif/harness/vk"
)

type checkFn func(c *vk.Ctx)

type checkDef struct {
	level string
	fn    checkFn
}

var registry = map[string]checkDef{}

func register(id, level string, fn checkFn) { registry[id] = checkDef{level, fn} }

func main() {
	if len(os.Args) >= 3 && os.Args[1] == "child" {
		runChild(os.Args[2], os.Args[3:])
		return
	}
	if len(os.Args) < 3 {
		ids := []string{}
		for k := range registry {
			ids = append(ids, k)
		}
		sort.Strings(ids)
		fmt.Fprintf(os.Stderr, "usage: vcheck <id> <quick|thorough>\nchecks: %v\n", ids)
		os.Exit(2)
	}
	id, tier := os.Args[1], os.Args[2]
	if rp := os.Getenv("VERIF_REPLAY"); rp != "" {
		os.Exit(replayFile(rp))
	}
	def, ok := registry[id]
	if !ok {
		fmt.Fprintf(os.Stderr, "vcheck: unknown check %q\n", id)
		os.Exit(2)
	}
	if tier != "quick" && tier != "thorough" {
		fmt.Fprintf(os.Stderr, "vcheck: tier must be quick or thorough\n")
		os.Exit(2)
	}
	seed := int64(1)
	if s := os.Getenv("VERIF_SEED"); s != "" {
		if v, err := strconv.ParseInt(s, 10, 64); err == nil {
			seed = v
		}
	}
	c := vk.New(id, tier, seed, def.level)
	def.fn(c)
	os.Exit(c.Finish())
}

// child process entry points (fuzz / hostile / race children) register here.
var children = map[string]func(args []string){}

func runChild(name string, args []string) {
	fn, ok := children[name]
	if !ok {
		fmt.Fprintf(os.Stderr, "vcheck: unknown child %q\n", name)
		os.Exit(2)
	}
	fn(args)
}
