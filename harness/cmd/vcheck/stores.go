package main

import (
	"fmt"
	"os"
	"path/filepath"
	"sync/atomic"

	miniredis "github.com/alicebob/miniredis/v2"
	badgerdb "github.com/dgraph-io/badger/v4"
	mqtt "github.com/mochi-mqtt/server/v2"
	"github.com/mochi-mqtt/server/v2/hooks/storage"
	"github.com/mochi-mqtt/server/v2/hooks/storage/badger"
	"github.com/mochi-mqtt/server/v2/hooks/storage/bolt"
	"github.com/mochi-mqtt/server/v2/hooks/storage/pebble"
	"github.com/mochi-mqtt/server/v2/hooks/storage/redis"
)

// storeHook is what the store engines need from a backend hook.
type storeHook interface {
	mqtt.Hook
	StoredClients() ([]storage.Client, error)
	StoredSubscriptions() ([]storage.Subscription, error)
	StoredRetainedMessages() ([]storage.Message, error)
	StoredInflightMessages() ([]storage.Message, error)
	StoredSysInfo() (storage.SystemInfo, error)
}

var backendNames = []string{"badger", "pebble", "bolt", "redis"}

// storeSite is one persistent store location: hooks opened on it see what earlier hooks wrote.
type storeSite struct {
	Backend string
	dir     string
	mr      *miniredis.Miniredis
}

var storeSeq atomic.Int64

func newStoreSite(backend string) (*storeSite, error) {
	base := os.Getenv("VERIF_SCRATCH")
	if base == "" {
		base = "/dev/shm"
	}
	s := &storeSite{Backend: backend, dir: filepath.Join(base, fmt.Sprintf("store-%s-%d-%d", backend, os.Getpid(), storeSeq.Add(1)))}
	if err := os.MkdirAll(s.dir, 0o755); err != nil {
		return nil, err
	}
	if backend == "redis" {
		mr, err := miniredis.Run()
		if err != nil {
			return nil, err
		}
		s.mr = mr
	}
	return s, nil
}

// open returns a fresh hook instance and its config for this site (not yet initialised; AddHook does that).
func (s *storeSite) open() (storeHook, any) {
	switch s.Backend {
	case "badger":
		o := badgerdb.DefaultOptions(filepath.Join(s.dir, "badger")).WithMemTableSize(1 << 20).WithValueLogFileSize(1 << 20).WithNumMemtables(1).
			WithNumLevelZeroTables(1).WithNumLevelZeroTablesStall(2).WithBlockCacheSize(1 << 20).WithIndexCacheSize(0).WithNumCompactors(2).WithValueThreshold(1 << 10).WithBaseTableSize(1 << 20).WithBaseLevelSize(1 << 20)
		return new(badger.Hook), &badger.Options{Path: filepath.Join(s.dir, "badger"), Options: &o}
	case "pebble":
		return new(pebble.Hook), &pebble.Options{Path: filepath.Join(s.dir, "pebble"), Mode: "NoSync"}
	case "bolt":
		return new(bolt.Hook), &bolt.Options{Path: filepath.Join(s.dir, "bolt.db")}
	case "redis":
		return new(redis.Hook), &redis.Options{Address: s.mr.Addr()}
	}
	panic("unknown backend " + s.Backend)
}

func (s *storeSite) destroy() {
	if s.mr != nil {
		s.mr.Close()
	}
	os.RemoveAll(s.dir)
}
