package main

import (
	"verif/harness/hist"
	"verif/harness/vk"
)

func init() {
	register("C14", "exploration", checkC14)
	register("C15", "exploration", checkC15)
	register("C16", "exploration", checkC16)
	register("C17", "exploration", checkC17)
}

func sessionProfile() *hist.Profile {
	p := qosProfile()
	p.Name = "takeover"
	p.IDs = []string{"c0", "c1", "c2"}
	p.SlotIDs = []int{0, 1, 2, 0, 1}
	p.Versions = []byte{4, 5, 5, 3}
	p.CleanPct = 40
	p.Expiry = []uint32{0, 300, 300}
	p.PubQoS = []byte{0, 1, 2}
	p.SubQoS = []byte{0, 1, 2}
	p.HowDisc = []string{"drop", "normal", "normal"}
	p.W = map[string]int{"connect": 8, "subscribe": 5, "unsubscribe": 1, "publish": 10, "disconnect": 4, "hold": 2, "ping": 1}
	return p
}

func checkC14(c *vk.Ctx) {
	c.Rule = "random connect/reconnect/takeover sequences over 3 client ids on 5 connection slots (two ids have two slots, so live connections are taken over), clean start 0/1, MQTT 3.1/3.1.1/5, session expiry 0/300 (also changed by DISCONNECT: 300 -> 0 ends the session at once), QoS 1/2 messages queued and unacknowledged: " +
		"CONNACK session present == (session exists and clean start 0); a resumed session keeps every subscription (later deliveries) and unacknowledged message (resends); after clean start 1 nothing of the old session is delivered or resent; the taken-over connection gets DISCONNECT 0x8E (v5), nothing after it, and is closed. nontrivial = histories with >=1 takeover or resume"
	c.Assumptions = []string{"MQTT 3 connections being taken over receive a DISCONNECT packet, which MQTT 3 reserves for clients: recorded under C23 as known finding, tolerated here"}
	p := sessionProfile()
	// normal v5 DISCONNECTs may carry a Session Expiry Interval: 0 ends the session there and then (session present 0 next time)
	p.DiscExpiry = []uint32{0, 0, 300}
	p.DiscExpPct = 30
	h := &histRun{Prop: "C14", Profile: p, N: c.N(400, 10000), Label: 14, Nontrivial: []string{"takeovers", "sessions_resumed"},
		Rules: []string{"C14/", "C03/unentitled-delivery", "C03/missing-delivery", "C09/not-resent-after-reconnect", "C23/packet-after-disconnect"}}
	h.run(c)
	// takeover of a connection whose session ends at disconnect: orders of old cleanup / new establishment under schedule control
	c14Schedules(c)
	c.MinEvents["takeovers"] = 200
	c.MinEvents["sessions_resumed"] = 200
	c.MinEvents["schedule_cases"] = 4
}

func checkC15(c *vk.Ctx) {
	c.Rule = "random histories with session expiry {absent,0,100,300,max} x server maximum {default,200} x v4/v5, DISCONNECT with expiry updates (including the forbidden 0 -> non-zero), housekeeping ticks at virtual times k*100+50 s, reconnects with clean start 0/1 and publishes on every old filter: " +
		"a disconnected session is present until its own interval (capped by the server maximum; server maximum for MQTT 3 persistent sessions) has elapsed and gone afterwards; connected sessions never disappear; after a session ended nothing reaches a later connection with the same id because of it. nontrivial = histories in which >=1 session expired at a tick or ended at disconnect and the id reconnected"
	p := sessionProfile()
	p.Name = "expiry"
	p.SlotIDs = []int{0, 1, 2}
	p.NoSelfTakeover = true
	p.Versions = []byte{4, 5, 5}
	p.Expiry = []uint32{0, 150, 250, 0xFFFFFFFF}
	p.MaxSessExp = []uint32{0, 250}
	p.TickDelta = []int64{100, 100, 200}
	p.CleanPct = 25
	p.DiscExpiry = []uint32{0, 0, 150, 250}
	p.DiscExpPct = 45
	p.HowDisc = []string{"drop", "normal", "normal", "normal"}
	p.W = map[string]int{"connect": 8, "subscribe": 5, "publish": 8, "disconnect": 5, "tick": 5}
	h := &histRun{Prop: "C15", Profile: p, N: c.N(400, 10000), Label: 15, Nontrivial: []string{"sessions_expired_by_tick", "sessions_ended_at_disconnect"},
		Rules: []string{"C15/", "C14/session-present", "C03/unentitled-delivery", "C03/missing-delivery", "C09/not-resent-after-reconnect"}}
	h.run(c)
	c.MinEvents["sessions_expired_by_tick"] = 50
}

func checkC16(c *vk.Ctx) {
	c.Rule = "random histories over disconnect kinds {normal, 0x04 'with will', network drop, malformed packet, second CONNECT, keep-alive expiry, takeover clean 0/1} x will delay {0,100} x session expiry {0,100,300} x reconnect before/after the delay x will QoS/retain, observed by a watcher subscribed to every will topic at QoS 2 with Retain As Published and by the retained store: " +
		"exactly one will PUBLISH when the connection ends abnormally or with 0x04, none after a normal DISCONNECT; with a delay none before min(delay, session end), one after, none if a clean-start-0 connection resumed first; topic/payload/QoS/retain as requested. nontrivial = histories with >=1 will expected"
	p := sessionProfile()
	p.Name = "will"
	p.IDs = []string{"c0", "c1", "w"}
	p.SlotIDs = []int{0, 1, 2, 0}
	p.Versions = []byte{5, 5, 4}
	p.WillPct = 80
	p.WillTopics = []string{"will/a", "will/b"}
	p.WillDelay = []uint32{0, 0, 150}
	p.Topics = []string{"a", "will/a"}
	p.Filters = []string{"will/#", "a", "#"}
	// only the watcher (slot 2, no will of its own) subscribes to will topics: a client's own
	// dying or taking-over connection receiving its will is a race the statement does not fix
	p.SlotFilters = map[int][]string{0: {"a"}, 1: {"a"}, 3: {"a"}, 2: {"will/#", "#", "will/a"}}
	p.NoWillSlots = map[int]bool{2: true}
	p.Expiry = []uint32{0, 150, 350}
	p.RetainPct = 30
	p.RAPPct = 80
	p.TickDelta = []int64{100, 100, 200}
	p.HowDisc = []string{"normal", "will", "drop", "garbage", "second-connect", "keepalive"}
	p.W = map[string]int{"connect": 8, "subscribe": 4, "publish": 3, "disconnect": 7, "tick": 5}
	rules := []string{"C16/", "C03/unentitled-delivery", "C03/missing-delivery", "C03/duplicate-delivery", "C04/", "C05/retained-not-sent"}
	// (1) live takeovers, wills without delay: teardown order cannot change the outcome
	p.Name = "will-takeover"
	p.WillDelay = []uint32{0}
	h := &histRun{Prop: "C16", Profile: p, N: c.N(250, 6000), Label: 16, Nontrivial: []string{"wills_expected"}, Rules: rules}
	h.run(c)
	// (2) will delays, no live takeover (a reconnect happens only after the old connection ended)
	p2 := *p
	p2.Name = "will-delay"
	p2.WillDelay = []uint32{0, 150, 150}
	p2.SlotIDs = []int{0, 1, 2}
	p2.NoSelfTakeover = true
	p2.SlotFilters = map[int][]string{0: {"a"}, 1: {"a"}, 2: {"will/#", "#", "will/a"}}
	h2 := &histRun{Prop: "C16", Profile: &p2, N: c.N(250, 6000), Label: 1602, Nontrivial: []string{"delayed_will_registered"}, Rules: rules}
	h2.run(c)
	// (3) live takeover of a connection whose will has a delay: every order of old teardown / new establishment, under schedule control
	c16Schedules(c)
	c.MinEvents["wills_expected"] = 200
	c.MinEvents["delayed_will_registered"] = 50
	c.MinEvents["schedule_cases"] = 5
}

func checkC17(c *vk.Ctx) {
	c.Rule = "random permission relations (about 30% of (client, topic, read/write) and (client, filter, read) triples denied) implemented by the harness's ACL hook (the only one installed), histories with wills on valid/denied/$SYS/wildcard topics, retained messages, reconnects, ObscureNotAuthorized on/off: " +
		"no delivery on a topic the receiver may not read; nothing delivered or retained from a publisher that may not write the topic (including wills and later retained replay); denied filters refused with 0x87 (0x80 obscured / MQTT 3) and never deliver; no client publish or will on $SYS or wildcard names. nontrivial = histories with >=1 denied access"
	p := deliveryProfile()
	p.Name = "acl"
	p.DenyPct = 30
	p.DenySubPct = 25
	p.ObscurePct = 30
	p.RetainPct = 35
	p.WillPct = 50
	p.WillTopics = []string{"a", "a/b", "$SYS/x", "a/+", "b/#", "b"}
	p.BadTopicPct = 8
	p.NLPct = 0
	p.AliasPct = 25 // alias-only publishes must be authorised on the topic the alias resolves to
	p.HowDisc = []string{"drop", "normal"}
	p.W = map[string]int{"connect": 5, "subscribe": 6, "unsubscribe": 1, "publish": 10, "disconnect": 4}
	h := &histRun{Prop: "C17", Profile: p, N: c.N(400, 10000), Label: 17, Nontrivial: []string{"publish_denied", "read_denied_deliveries", "will_refused"},
		Rules: []string{"C17/", "C03/unentitled-delivery", "C05/retained-not-sent", "C03/missing-delivery", "C07/no-response"}}
	h.run(c)
	c.MinEvents["publish_denied"] = 100
	c.MinEvents["read_denied_deliveries"] = 50
	// wills that wait for their delay: the write permission must hold whichever way the will ends up being published
	// (delay elapsed, session expired first, clean-start reconnect before the delay elapsed)
	p2 := sessionProfile()
	p2.Name = "acl-delayed-will"
	p2.IDs = []string{"c0", "c1", "w"}
	p2.SlotIDs = []int{0, 1, 2}
	p2.NoSelfTakeover = true
	p2.Versions = []byte{5, 5, 4}
	p2.WillPct = 85
	p2.WillTopics = []string{"will/a", "will/b", "$SYS/w"}
	p2.WillDelay = []uint32{0, 150, 150}
	p2.Topics = []string{"a", "will/a"}
	p2.Filters = []string{"will/#", "a", "#"}
	p2.SlotFilters = map[int][]string{0: {"a"}, 1: {"a"}, 2: {"will/#", "#", "will/a"}}
	p2.NoWillSlots = map[int]bool{2: true}
	p2.Expiry = []uint32{0, 150, 350}
	p2.CleanPct = 50
	p2.RetainPct = 40
	p2.RAPPct = 80
	p2.DenyPct = 40
	p2.TickDelta = []int64{100, 100, 200}
	p2.HowDisc = []string{"normal", "will", "drop", "drop"}
	p2.W = map[string]int{"connect": 8, "subscribe": 4, "publish": 3, "disconnect": 7, "tick": 5}
	h2 := &histRun{Prop: "C17", Profile: p2, N: c.N(250, 6000), Label: 1702, Nontrivial: []string{"will_refused"},
		Rules: []string{"C17/", "C03/unentitled-delivery", "C05/retained-not-sent", "C16/will-published"}}
	h2.run(c)
	c.MinEvents["will_refused"] = 50
}
