//go:build lockmon

package main

import "github.com/mochi-mqtt/server/v2/lockmon"

// Built against the rewritten scratch copy of /repo (tools/mk_lockmon_tree.sh): every broker lock is monitored.
var lockmonFlush = lockmon.Flush

const lockmonBuild = true
