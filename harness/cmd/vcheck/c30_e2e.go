package main

import "verif/harness/vk"

func c30EndToEnd(c *vk.Ctx, all []string) {}

func c01EndToEnd(c *vk.Ctx) {}

func c02EndToEnd(c *vk.Ctx) {}

func c42EndToEnd(c *vk.Ctx) {}
