package main

import (
	"fmt"
	"strings"

	mqtt "github.com/mochi-mqtt/server/v2"
	"github.com/mochi-mqtt/server/v2/hooks/auth"
	"github.com/mochi-mqtt/server/v2/packets"

	"verif/harness/refmatch"
	"verif/harness/vk"
)

func init() { register("C18", "exploration", checkC18) }

// reference principal-pattern semantics (as documented for RString): "" and "*" match
// anything, "p*" matches strings that start with p and are longer than p, otherwise equality.
// The generator never produces a subject equal to a prefix pattern's stem, so the
// strict/non-strict reading of "p*" is never exercised.
func refPat(p, s string) bool {
	if p == "" || p == "*" || p == s {
		return true
	}
	if i := strings.Index(p, "*"); i > 0 {
		return len(s) > i && s[:i] == p[:i]
	}
	return false
}

func grants(a auth.Access, write bool) bool {
	if write {
		return a == auth.WriteOnly || a == auth.ReadWrite
	}
	return a == auth.ReadOnly || a == auth.ReadWrite
}

// refACL returns (decision, specified). specified=false where the statement only fixes determinism.
func refACL(l *auth.Ledger, id, user, remote, topic string, write bool) (bool, bool) {
	if u, ok := l.Users[user]; ok && len(u.ACL) > 0 {
		seenT, seenF := false, false
		for f, a := range u.ACL {
			if refmatch.LedgerMatch(string(f), topic) {
				if grants(a, write) {
					seenT = true
				} else {
					seenF = true
				}
			}
		}
		if seenT && seenF {
			return false, false
		}
		if seenT {
			return true, true
		}
		if seenF {
			return false, true
		}
	}
	for _, r := range l.ACL {
		if refPat(string(r.Client), id) && refPat(string(r.Username), user) && refPat(string(r.Remote), remote) {
			if len(r.Filters) == 0 {
				return true, true
			}
			seenT, seenF := false, false
			for f, a := range r.Filters {
				if refmatch.LedgerMatch(string(f), topic) {
					if grants(a, write) {
						seenT = true
					} else {
						seenF = true
					}
				}
			}
			if seenT && seenF {
				return false, false
			}
			if seenT {
				return true, true
			}
			if seenF {
				return false, true
			}
		}
	}
	return false, false // no rule matched: default not fixed by the statement
}

func refAuth(l *auth.Ledger, id, user, pass, remote string) (bool, bool) {
	if u, ok := l.Users[user]; ok && u.Password != "" && string(u.Password) == pass {
		return !u.Disallow, true
	}
	for _, r := range l.Auth {
		if refPat(string(r.Client), id) && refPat(string(r.Username), user) && refPat(string(r.Password), pass) && refPat(string(r.Remote), remote) {
			return r.Allow, true
		}
	}
	return false, true // nothing allows
}

func checkC18(c *vk.Ctx) {
	c.Rule = "(1) exhaustive MatchTopic(filter,topic) over ledger filters of depth<=4 {a,b,'',+, trailing #} x topics depth<=4 {a,b,''} vs refmatch.LedgerMatch; " +
		"(2) random ledgers (0-3 users with 1-4 overlapping filters of different access, 0-4 global ACL rules and 0-4 auth rules with exact/''/'*'/'prefix*' patterns) x 4 clients x all topics depth<=3: " +
		"every ACLOk/AuthOk decision evaluated 64 times (Go randomises map iteration per range) must be constant, and must equal the reference evaluator where the statement fixes the answer. nontrivial = distinct (ledger,client,topic,write) decisions fixed by the statement"
	c.Assumptions = []string{"refmatch.LedgerMatch = level semantics stated in C18", "'#' is only generated as the last level; principal equal to a 'prefix*' stem is not generated (statement silent)",
		"where several matching filters of one rule/user disagree on access, and where no rule matches, only determinism is checked"}

	fl := []string{"a", "b", "", "+"}
	var filters []string
	for _, f := range enumLevels(fl, 4) {
		filters = append(filters, f)
		if strings.Count(f, "/") < 3 {
			filters = append(filters, f+"/#")
		}
	}
	filters = append(filters, "#")
	topics4 := enumLevels([]string{"a", "b", ""}, 4)
	var hs []uint64
	n := int64(0)
	for _, f := range filters {
		if f == "" {
			continue
		}
		for _, t := range topics4 {
			if t == "" {
				continue
			}
			_, got := auth.MatchTopic(f, t)
			want := refmatch.LedgerMatch(f, t)
			n++
			if want {
				hs = append(hs, vk.Hash("mt", f, t))
			}
			if got != want {
				attr := "other"
				if got && strings.Count(t, "/") > strings.Count(f, "/") && !strings.HasSuffix(f, "#") {
					attr = "topic-longer-than-filter"
				}
				c.Violate("C18/matchtopic", map[string]string{"cause": attr, "got": fmt.Sprint(got)},
					fmt.Sprintf("MatchTopic(%q,%q)=%v reference=%v", f, t, got, want), map[string]any{"filter": f, "topic": t})
			}
		}
	}
	c.EvalBulk(n, hs)
	c.Count("matchtopic_pairs", n)

	// (2) random ledgers
	nl := c.N(2000, 60000)
	topics3 := enumLevels([]string{"a", "b", ""}, 3)
	ids := []string{"cl1", "cl22", "dev7", "x"}
	users := []string{"alice", "bob", "", "carol9"}
	remotes := []string{"10.0.0.5:1", "127.0.0.1:9"}
	pats := func(r *vk.Rand, pool []string) auth.RString {
		switch r.Intn(5) {
		case 0:
			return ""
		case 1:
			return "*"
		case 2:
			s := vk.Pick(r, pool)
			if len(s) > 1 {
				return auth.RString(s[:len(s)-1] + "*")
			}
			return auth.RString(s)
		default:
			return auth.RString(vk.Pick(r, pool))
		}
	}
	ledgerFilters := []string{"a", "a/b", "a/+", "a/#", "+/b", "#", "b", "b/#", "+", "a/b/#", "+/+", "a//b", "/a", "a/"}
	vk.Parallel(nl, 0, func(i int) {
		r := vk.Sub(c.Seed, 18, uint64(i))
		l := &auth.Ledger{}
		if r.Chance(70) {
			l.Users = auth.Users{}
			for k := 0; k < r.Range(1, 3); k++ {
				u := vk.Pick(r, users)
				rule := auth.UserRule{Username: auth.RString(u), Password: auth.RString(vk.Pick(r, []string{"", "pwA", "pwB"})), Disallow: r.Chance(20)}
				if r.Chance(80) {
					rule.ACL = auth.Filters{}
					for j := 0; j < r.Range(1, 4); j++ {
						rule.ACL[auth.RString(vk.Pick(r, ledgerFilters))] = auth.Access(r.Intn(4))
					}
				}
				l.Users[u] = rule
			}
		}
		for k := 0; k < r.Range(0, 4); k++ {
			rule := auth.ACLRule{Client: pats(r, ids), Username: pats(r, users), Remote: pats(r, remotes)}
			if r.Chance(85) {
				rule.Filters = auth.Filters{}
				for j := 0; j < r.Range(1, 4); j++ {
					rule.Filters[auth.RString(vk.Pick(r, ledgerFilters))] = auth.Access(r.Intn(4))
				}
			}
			l.ACL = append(l.ACL, rule)
		}
		for k := 0; k < r.Range(0, 4); k++ {
			l.Auth = append(l.Auth, auth.AuthRule{Client: pats(r, ids), Username: pats(r, users), Remote: pats(r, remotes), Password: pats(r, []string{"pwA", "pwB"}), Allow: r.Chance(60)})
		}
		srv := mqtt.New(&mqtt.Options{Logger: quietLogger()})
		var hs []uint64
		evals := int64(0)
		for ci := 0; ci < 4; ci++ {
			id, user, remote := ids[ci], users[ci], remotes[ci%2]
			cl := srv.NewClient(nil, "l", id, false)
			cl.Properties.Username = []byte(user)
			cl.Net.Remote = remote
			// auth
			for _, pass := range []string{"pwA", "pwB", ""} {
				pk := packets.Packet{Connect: packets.ConnectParams{Password: []byte(pass)}}
				_, first := l.AuthOk(cl, pk)
				for k := 0; k < 16; k++ {
					if _, again := l.AuthOk(cl, pk); again != first {
						c.Violate("C18/auth-nondeterministic", nil, fmt.Sprintf("AuthOk(%s,%s,%s) flips", id, user, pass), map[string]any{"ledger": l})
						break
					}
				}
				want, _ := refAuth(l, id, user, pass, remote)
				if want != first {
					c.Violate("C18/auth-decision", map[string]string{"want": fmt.Sprint(want)}, fmt.Sprintf("AuthOk(id=%s,user=%s,pass=%s)=%v reference=%v", id, user, pass, first, want), map[string]any{"ledger": l, "client": id, "user": user, "pass": pass})
				}
				evals++
				hs = append(hs, vk.Hash("auth", i, ci, pass))
			}
			for _, t := range topics3 {
				if t == "" {
					continue
				}
				for _, write := range []bool{false, true} {
					_, first := l.ACLOk(cl, t, write)
					flip := false
					for k := 0; k < 63; k++ {
						if _, again := l.ACLOk(cl, t, write); again != first {
							flip = true
							break
						}
					}
					evals++
					want, specified := refACL(l, id, user, remote, t, write)
					if flip {
						c.Violate("C18/acl-nondeterministic", map[string]string{"user_acl": fmt.Sprint(l.Users != nil && len(l.Users[user].ACL) > 0)},
							fmt.Sprintf("ACLOk(id=%s,user=%s,topic=%q,write=%v) returns different results on repeated evaluation", id, user, t, write), map[string]any{"ledger": l, "client": id, "user": user, "topic": t, "write": write})
						continue
					}
					if specified {
						hs = append(hs, vk.Hash("acl", i, ci, t, write))
						if want != first {
							c.Violate("C18/acl-decision", map[string]string{"want": fmt.Sprint(want)},
								fmt.Sprintf("ACLOk(id=%s,user=%s,remote=%s,topic=%q,write=%v)=%v reference=%v", id, user, remote, t, write, first, want), map[string]any{"ledger": l, "client": id, "user": user, "topic": t, "write": write})
						}
					} else {
						c.Count("decisions_determinism_only", 1)
					}
				}
			}
		}
		c.EvalBulk(evals, hs)
		if i == 0 {
			c.Sample(map[string]any{"ledger": l})
		}
	})
	c.Count("ledgers", int64(nl))
	c.MinEvents["matchtopic_pairs"] = 10000
}
