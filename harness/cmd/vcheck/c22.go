package main

import (
	"encoding/json"
	"fmt"
	"reflect"
	"sort"
	"strings"

	mqtt "github.com/mochi-mqtt/server/v2"
	"github.com/mochi-mqtt/server/v2/hooks/storage"
	"github.com/mochi-mqtt/server/v2/packets"
	"github.com/mochi-mqtt/server/v2/system"

	"verif/harness/vk"
)

func init() { register("C22", "exploration", checkC22) }

var c22IDs = []string{"a", "a:b", "b", "é/日", "a_b", "x:1"}
var c22Filters = []string{"c", "b:c", "x/#", "$share/g/t", "é/+", "1", "t"}
var c22Topics = []string{"t", "a:b", "RET_t", "x/y", "日", "c"}

type c22Event struct {
	Kind    string   `json:"kind"`
	Client  string   `json:"client,omitempty"`
	Filters []string `json:"filters,omitempty"`
	Topic   string   `json:"topic,omitempty"`
	PID     uint16   `json:"pid,omitempty"`
	R       int64    `json:"r,omitempty"`
	Expire  bool     `json:"expire,omitempty"`
	Taken   bool     `json:"taken_over,omitempty"`
	Ver     byte     `json:"ver,omitempty"`
	Exp     uint32   `json:"session_expiry,omitempty"`
	Will    bool     `json:"will,omitempty"`
	Payload string   `json:"payload,omitempty"`
	N       int64    `json:"n,omitempty"`
}

func genC22(r *vk.Rand, n int) []c22Event {
	var evs []c22Event
	known := map[string]bool{}
	for len(evs) < n {
		id := vk.Pick(r, c22IDs)
		switch x := r.Intn(100); {
		case x < 16 || !known[id]:
			evs = append(evs, c22Event{Kind: "established", Client: id, Ver: vk.Pick(r, []byte{4, 5}), Exp: uint32(vk.Pick(r, []int{0, 0, 60, 300})), Will: r.Chance(30), Expire: r.Chance(30)})
			known[id] = true
		case x < 26:
			evs = append(evs, c22Event{Kind: "disconnect", Client: id, Expire: r.Chance(50), Taken: r.Chance(25)})
		case x < 44:
			e := c22Event{Kind: "subscribed", Client: id, Filters: []string{vk.Pick(r, c22Filters)}, N: int64(r.Intn(3))}
			if r.Chance(30) {
				e.Filters = append(e.Filters, vk.Pick(r, c22Filters))
			}
			evs = append(evs, e)
		case x < 54:
			evs = append(evs, c22Event{Kind: "unsubscribed", Client: id, Filters: []string{vk.Pick(r, c22Filters)}})
		case x < 68:
			e := c22Event{Kind: "retain", Client: id, Topic: vk.Pick(r, c22Topics), R: int64(vk.Pick(r, []int{1, 1, 1, -1, 0})), Payload: fmt.Sprintf("p%d", len(evs))}
			if e.R != 1 {
				e.Payload = ""
			}
			evs = append(evs, e)
		case x < 82:
			e := c22Event{Kind: "qos-publish", Client: id, Topic: vk.Pick(r, c22Topics), PID: uint16(r.Range(1, 6)), Payload: fmt.Sprintf("q%d", len(evs)), N: int64(r.Intn(3))}
			evs = append(evs, e)
			if r.Chance(35) {
				// a resend: the same record written again under the same client and packet id, then (often) resolved
				e.N = 2
				evs = append(evs, e)
				if r.Chance(60) {
					evs = append(evs, c22Event{Kind: vk.Pick(r, []string{"qos-complete", "qos-complete", "qos-dropped"}), Client: id, PID: e.PID})
				}
			}
		case x < 88:
			evs = append(evs, c22Event{Kind: "qos-complete", Client: id, PID: uint16(r.Range(1, 6))})
		case x < 91:
			evs = append(evs, c22Event{Kind: "qos-dropped", Client: id, PID: uint16(r.Range(1, 6))})
		case x < 94:
			evs = append(evs, c22Event{Kind: "client-expired", Client: id})
		case x < 96:
			evs = append(evs, c22Event{Kind: "retained-expired", Topic: vk.Pick(r, c22Topics)})
		case x < 97:
			evs = append(evs, c22Event{Kind: "will-sent", Client: id})
		case x < 98:
			evs = append(evs, c22Event{Kind: "reopen"})
		default:
			evs = append(evs, c22Event{Kind: "sys-tick", N: int64(len(evs))})
		}
	}
	return evs
}

// one backend under test: its own server (for client construction and hook initialisation), site and hook
type c22Backend struct {
	name    string
	srv     *mqtt.Server
	site    *storeSite
	hook    storeHook
	clients map[string]*mqtt.Client
}

func openC22(name string) (*c22Backend, error) {
	site, err := newStoreSite(name)
	if err != nil {
		return nil, err
	}
	b := &c22Backend{name: name, site: site, clients: map[string]*mqtt.Client{}}
	b.srv = mqtt.New(&mqtt.Options{Logger: quietLogger()})
	h, cfg := site.open()
	if err := b.srv.AddHook(h, cfg); err != nil {
		site.destroy()
		return nil, err
	}
	b.hook = h
	return b, nil
}

// reopen stops the hook and initialises a new one on the same store location (what a broker restart does to the store).
func (b *c22Backend) reopen() error {
	_ = b.hook.Stop()
	b.srv = mqtt.New(&mqtt.Options{Logger: quietLogger()})
	h, cfg := b.site.open()
	if err := b.srv.AddHook(h, cfg); err != nil {
		return err
	}
	b.hook = h
	return nil
}

func (b *c22Backend) close() {
	_ = b.hook.Stop()
	b.site.destroy()
}

func (b *c22Backend) apply(e c22Event, seqNo int) {
	cl := b.clients[e.Client]
	if cl == nil && e.Client != "" {
		cl = b.srv.NewClient(nil, "l1", e.Client, false)
		b.clients[e.Client] = cl
	}
	switch e.Kind {
	case "reopen":
		if err := b.reopen(); err != nil {
			panic(fmt.Sprintf("C22: reopen %s: %v", b.name, err))
		}
	case "established":
		cl = b.srv.NewClient(nil, "l1", e.Client, false) // a new connection object per connection
		b.clients[e.Client] = cl
		cl.Properties.ProtocolVersion = e.Ver
		cl.Properties.Clean = e.Expire
		cl.Properties.Username = []byte("u-" + e.Client)
		if e.Ver == 5 && e.Exp > 0 {
			cl.Properties.Props.SessionExpiryInterval = e.Exp
			cl.Properties.Props.SessionExpiryIntervalFlag = true
		}
		cl.Properties.Props.ReceiveMaximum = 7
		cl.Properties.Props.User = []packets.UserProperty{{Key: "k", Val: "v"}}
		if e.Will {
			cl.Properties.Will = mqtt.Will{Payload: []byte("w"), TopicName: "w/" + e.Client, Flag: 1, Qos: 1, WillDelayInterval: 5}
		}
		b.hook.OnSessionEstablished(cl, packets.Packet{})
	case "disconnect":
		if e.Taken {
			cl.Stop(packets.ErrSessionTakenOver)
		} else {
			cl.Stop(packets.CodeDisconnect)
		}
		b.hook.OnDisconnect(cl, nil, e.Expire)
	case "subscribed", "unsubscribed":
		pk := packets.Packet{}
		var codes []byte
		for i, f := range e.Filters {
			pk.Filters = append(pk.Filters, packets.Subscription{Filter: f, Qos: byte(e.N), Identifier: i + int(e.N), NoLocal: e.N == 1, RetainAsPublished: e.N == 2, RetainHandling: byte(e.N)})
			codes = append(codes, byte(e.N))
		}
		if e.Kind == "subscribed" {
			b.hook.OnSubscribed(cl, pk, codes)
		} else {
			b.hook.OnUnsubscribed(cl, pk)
		}
	case "retain":
		pk := packets.Packet{FixedHeader: packets.FixedHeader{Type: packets.Publish, Retain: true, Qos: 1}, TopicName: e.Topic, Payload: []byte(e.Payload), Created: 1000 + int64(seqNo), Origin: e.Client,
			Properties: packets.Properties{MessageExpiryInterval: 60, ContentType: "ct", User: []packets.UserProperty{{Key: "a", Val: "b"}}, CorrelationData: []byte{1, 2}}}
		b.hook.OnRetainMessage(cl, pk, e.R)
	case "qos-publish":
		pk := packets.Packet{FixedHeader: packets.FixedHeader{Type: packets.Publish, Qos: byte(1 + e.N%2), Dup: e.N == 2}, PacketID: e.PID, TopicName: e.Topic, Payload: []byte(e.Payload), Created: 2000 + int64(seqNo), Origin: "o",
			Properties: packets.Properties{MessageExpiryInterval: 30, ResponseTopic: "r", SubscriptionIdentifier: []int{3}}}
		b.hook.OnQosPublish(cl, pk, 2000+int64(seqNo), int(e.N))
	case "qos-complete":
		b.hook.OnQosComplete(cl, packets.Packet{PacketID: e.PID})
	case "qos-dropped":
		b.hook.OnQosDropped(cl, packets.Packet{PacketID: e.PID})
	case "client-expired":
		b.hook.OnClientExpired(cl)
	case "retained-expired":
		b.hook.OnRetainedExpired(e.Topic)
	case "will-sent":
		cl.Properties.Will = mqtt.Will{}
		b.hook.OnWillSent(cl, packets.Packet{})
	case "sys-tick":
		b.hook.OnSysInfoTick(&system.Info{Version: "x", Started: 5, Uptime: e.N, Retained: e.N, Subscriptions: 2 * e.N, Inflight: 3})
	}
}

// snapshot returns, per record type, the sorted canonical records with storage-key fields dropped.
func (b *c22Backend) snapshot() (map[string][]string, error) {
	out := map[string][]string{}
	canon := func(v any, drop ...string) string {
		jb, _ := json.Marshal(v)
		var m map[string]any
		_ = json.Unmarshal(jb, &m)
		for _, d := range drop {
			delete(m, d)
		}
		normaliseEmpty(m)
		jb, _ = json.Marshal(m)
		return string(jb)
	}
	cls, err := b.hook.StoredClients()
	if err != nil {
		return nil, fmt.Errorf("StoredClients: %w", err)
	}
	for _, c := range cls {
		out["clients"] = append(out["clients"], canon(c))
	}
	subs, err := b.hook.StoredSubscriptions()
	if err != nil {
		return nil, fmt.Errorf("StoredSubscriptions: %w", err)
	}
	for _, s := range subs {
		out["subscriptions"] = append(out["subscriptions"], canon(s, "id"))
	}
	ret, err := b.hook.StoredRetainedMessages()
	if err != nil {
		return nil, fmt.Errorf("StoredRetainedMessages: %w", err)
	}
	for _, m := range ret {
		out["retained"] = append(out["retained"], canon(m, "id"))
	}
	inf, err := b.hook.StoredInflightMessages()
	if err != nil {
		return nil, fmt.Errorf("StoredInflightMessages: %w", err)
	}
	for _, m := range inf {
		out["inflight"] = append(out["inflight"], canon(m, "id"))
	}
	si, err := b.hook.StoredSysInfo()
	if err != nil {
		return nil, fmt.Errorf("StoredSysInfo: %w", err)
	}
	out["sysinfo"] = []string{canon(si, "id")}
	for k := range out {
		sort.Strings(out[k])
	}
	return out, nil
}

// normaliseEmpty removes null / empty values recursively so that nil and empty slices compare equal.
func normaliseEmpty(m map[string]any) {
	for k, v := range m {
		switch x := v.(type) {
		case nil:
			delete(m, k)
		case []any:
			if len(x) == 0 {
				delete(m, k)
			}
		case string:
			if x == "" {
				delete(m, k)
			}
		case map[string]any:
			normaliseEmpty(x)
			if len(x) == 0 {
				delete(m, k)
			}
		}
	}
}

func firstFieldDiff(a, b []string) string {
	for i := 0; i < len(a) && i < len(b); i++ {
		if a[i] == b[i] {
			continue
		}
		var ma, mb map[string]any
		_ = json.Unmarshal([]byte(a[i]), &ma)
		_ = json.Unmarshal([]byte(b[i]), &mb)
		var fs []string
		for k := range ma {
			if !reflect.DeepEqual(ma[k], mb[k]) {
				fs = append(fs, k)
			}
		}
		for k := range mb {
			if _, ok := ma[k]; !ok {
				fs = append(fs, k)
			}
		}
		sort.Strings(fs)
		return strings.Join(uniqStr(fs), ",")
	}
	return "record-count"
}

func uniqStr(a []string) []string {
	var o []string
	for i, v := range a {
		if i == 0 || v != a[i-1] {
			o = append(o, v)
		}
	}
	return o
}

func checkC22(c *vk.Ctx) {
	c.Rule = "random sequences of 5-60 storage hook events (session established v4/v5 with/without will and expiry, disconnect with expire 0/1 and taken-over stop cause, subscribed/unsubscribed with 1-2 filters and all options, retained set/clear/no-op (r = 1/-1/0), QoS publish/complete/drop, client and retained expiry, will sent, sys tick) over client ids {a, a:b, b, é/日, a_b, x:1}, filters {c, b:c, x/#, $share/g/t, é/+, 1, t} and topics {t, a:b, RET_t, x/y, 日, c} " +
		"are applied identically to the badger, pebble, bolt and redis (in-process miniredis) hooks; stores are also closed and opened again on the same location inside sequences (2% of events) and after each sequence; QoS publishes are rewritten under the same client and packet id (resend) in 35% of cases before being completed/dropped; after the sequence, after the final reopen (and once in the middle) Stored{Clients,Subscriptions,RetainedMessages,InflightMessages,SysInfo} are read back from each, storage-key fields dropped, nil/empty unified, sorted, and compared. nontrivial = sequences after which at least three record types are non-empty"
	c.Assumptions = []string{"the ID field of subscription/message records is the storage key and differs by design between redis and the file stores; it is dropped before comparison"}
	n := c.N(120, 3000)
	vk.Parallel(n, 8, func(i int) {
		r := vk.Sub(c.Seed, 22, uint64(i))
		evs := genC22(r, r.Range(5, 60))
		var bs []*c22Backend
		for _, name := range backendNames {
			b, err := openC22(name)
			if err != nil {
				c.Inconclusive(fmt.Sprintf("case %d: cannot open %s: %v", i, name, err))
				for _, x := range bs {
					x.close()
				}
				return
			}
			bs = append(bs, b)
		}
		defer func() {
			for _, b := range bs {
				b.close()
			}
		}()
		compare := func(upto int) bool {
			snaps := make([]map[string][]string, len(bs))
			for k, b := range bs {
				s, err := b.snapshot()
				if err != nil {
					c.Violate("C22/read-back-error", map[string]string{"backend": b.name}, fmt.Sprintf("case %d: %v", i, err), map[string]any{"events": evs[:upto]})
					return false
				}
				snaps[k] = s
			}
			ok := true
			for _, rec := range []string{"clients", "subscriptions", "retained", "inflight", "sysinfo"} {
				groups := map[string][]string{}
				var order []string
				for k, b := range bs {
					key := strings.Join(snaps[k][rec], "\n")
					if _, seen := groups[key]; !seen {
						order = append(order, key)
					}
					groups[key] = append(groups[key], b.name)
				}
				if len(groups) > 1 {
					ok = false
					var gs []string
					for _, key := range order {
						gs = append(gs, strings.Join(groups[key], "+"))
					}
					sort.Strings(gs)
					a, b2 := strings.Split(order[0], "\n"), strings.Split(order[1], "\n")
					field := firstFieldDiff(a, b2)
					c.Violate("C22/backends-differ", map[string]string{"record": rec, "groups": strings.Join(gs, " | "), "field": field},
						fmt.Sprintf("case %d after %d events: %s read back differ between backends (%s); differing field(s): %s\n  %s: %s\n  %s: %s", i, upto, rec, strings.Join(gs, " | "), field, groups[order[0]][0], trunc([]byte(order[0])), groups[order[1]][0], trunc([]byte(order[1]))),
						map[string]any{"events": evs[:upto], "read_back": map[string]string{groups[order[0]][0]: order[0], groups[order[1]][0]: order[1]}})
				}
			}
			nonEmpty := 0
			for _, rec := range []string{"clients", "subscriptions", "retained", "inflight"} {
				if len(snaps[0][rec]) > 0 {
					nonEmpty++
				}
				c.Count("records_compared_"+rec, int64(len(snaps[0][rec])))
			}
			if upto == len(evs) {
				c.Eval(vk.Hash("c22", i, len(evs)), nonEmpty >= 3)
			}
			return ok
		}
		for k, e := range evs {
			for _, b := range bs {
				b.apply(e, k)
			}
			c.Count("events_applied", 1)
			if k+1 == len(evs)/2 {
				compare(k + 1)
			}
		}
		if compare(len(evs)) {
			// and once more after every store was closed and opened again: what was read back must not depend on
			// what still sat in a write buffer
			evs = append(evs, c22Event{Kind: "reopen"})
			for _, b := range bs {
				b.apply(evs[len(evs)-1], len(evs)-1)
			}
			c.Count("reopened_then_compared", 1)
			compare(len(evs))
		}
		if i < 2 {
			c.Sample(map[string]any{"events": evs})
		}
	})
	c.MinEvents["events_applied"] = int64(n) * 10
	c.MinEvents["records_compared_inflight"] = 50
	c.MinEvents["records_compared_subscriptions"] = 50
}

var _ = storage.ClientKey
