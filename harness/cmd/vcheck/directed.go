package main

import (
	"time"

	"verif/harness/eng"
	rc "verif/harness/refcodec"
)

// small helpers for hand-written (directed) scenarios on the engine

type dconn struct {
	*eng.Client
	b *eng.Broker
}

func dConnect(b *eng.Broker, ver byte, id string, clean bool, props rc.Props, mod func(p *rc.Packet)) (*dconn, []*eng.RxPacket) {
	c := b.Attach()
	c.Version = ver
	p := &rc.Packet{Type: rc.CONNECT, ProtoLevel: ver, ProtoName: "MQTT", ClientID: id, KeepAlive: 0}
	if ver == 3 {
		p.ProtoName = "MQIsdp"
	}
	if clean {
		p.ConnectFlags |= 2
	}
	if ver == 5 {
		p.Props = props
	}
	if mod != nil {
		mod(p)
	}
	c.Send(p, rc.FormAuto)
	d := &dconn{Client: c, b: b}
	return d, d.wait()
}

func (d *dconn) wait() []*eng.RxPacket {
	d.b.Quiesce(10 * time.Second)
	return d.Drain()
}

func (d *dconn) send(p *rc.Packet) []*eng.RxPacket {
	p.Version = d.Version
	d.Send(p, rc.FormAuto)
	return d.wait()
}

func (d *dconn) sendForm(p *rc.Packet, f rc.Form) []*eng.RxPacket {
	p.Version = d.Version
	d.Send(p, f)
	return d.wait()
}

func (d *dconn) raw(b []byte) []*eng.RxPacket {
	d.SendRaw(b)
	return d.wait()
}

func (d *dconn) closed() bool {
	c, _ := d.MC.BrokerClosed()
	return c || d.Done()
}

func hasType(ps []*eng.RxPacket, t byte) *rc.Packet {
	for _, p := range ps {
		if p.P.Type == t {
			return p.P
		}
	}
	return nil
}

func subscribePkt(pid uint16, filter string, opts byte) *rc.Packet {
	return &rc.Packet{Type: rc.SUBSCRIBE, PacketID: pid, Filters: []rc.SubFilter{{Filter: filter, Options: opts}}}
}

func publishPkt(topic string, qos byte, pid uint16, payload string, retain bool) *rc.Packet {
	return &rc.Packet{Type: rc.PUBLISH, Topic: topic, QoS: qos, PacketID: pid, Payload: []byte(payload), Retain: retain}
}
