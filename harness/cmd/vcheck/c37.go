package main

import (
	"fmt"
	"net"
	"sync"
	"sync/atomic"
	"time"

	mqtt "github.com/mochi-mqtt/server/v2"
	"github.com/mochi-mqtt/server/v2/hooks/auth"
	"github.com/mochi-mqtt/server/v2/listeners"

	"verif/harness/eng"
	rc "verif/harness/refcodec"
	"verif/harness/vk"
)

func init() { register("C37", "exploration", checkC37) }

// ---- state part: the deadline the broker asks the connection for

func c37DeadlineCase(c *vk.Ctx, ver byte, K uint16, attempt int) bool {
	b := eng.NewBroker(eng.Options{})
	defer b.Shutdown()
	d, rx := dConnect(b, ver, fmt.Sprintf("k%d", K), true, nil, func(p *rc.Packet) { p.KeepAlive = K })
	if ca := hasType(rx, rc.CONNACK); ca == nil || ca.Reason != 0 {
		c.Inconclusive(fmt.Sprintf("C37 state: CONNECT keepalive %d refused", K))
		return true
	}
	nBefore := len(d.MC.Deadlines())
	d.send(&rc.Packet{Type: rc.PINGREQ})
	d.send(publishPkt("k/t", 0, 0, "x", false))
	d.send(&rc.Packet{Type: rc.PINGREQ})
	recs := d.MC.Deadlines()
	if len(recs) <= nBefore && K > 0 {
		c.Violate("C37/deadline-not-refreshed", map[string]string{"k": fmt.Sprint(K)}, fmt.Sprintf("keepalive %d: no deadline was requested after packets arrived (%d requests in total)", K, len(recs)), nil)
		return true
	}
	for i, r := range recs {
		c.Count("deadline_requests", 1)
		if K == 0 {
			if !r.T.IsZero() {
				c.Violate("C37/deadline-with-keepalive-0", map[string]string{"k": "0"}, fmt.Sprintf("keepalive 0: deadline request #%d asks for %v", i, r.T.Sub(r.At)), nil)
			}
			continue
		}
		if r.T.IsZero() {
			c.Violate("C37/no-deadline", map[string]string{"k": fmt.Sprint(K)}, fmt.Sprintf("keepalive %d: deadline request #%d clears the deadline", K, i), nil)
			continue
		}
		got := r.T.Sub(r.At).Seconds()
		want := 1.5 * float64(K)
		if got < want-0.2 || got > want+0.05 {
			if attempt == 0 {
				return false // retry once: a stall between computing the deadline and recording it would look like a short deadline
			}
			c.Violate("C37/deadline-value", map[string]string{"k_parity": []string{"even", "odd"}[K%2]}, fmt.Sprintf("keepalive %d s (MQTT %d): the broker asked for a read deadline %.3f s ahead, expected %.1f s", K, ver, got, want), map[string]any{"keepalive": K, "request": i})
		}
	}
	return true
}

// c37OutboundCase: what the broker sends to a client must not move that client's deadline - only packets received
// from it do. A subscriber with keepalive K subscribes and then stays silent while another client publishes to it.
func c37OutboundCase(c *vk.Ctx, ver byte, K uint16, qos byte) {
	b := eng.NewBroker(eng.Options{})
	defer b.Shutdown()
	sub, rx := dConnect(b, ver, "ksub", true, nil, func(p *rc.Packet) { p.KeepAlive = K })
	if ca := hasType(rx, rc.CONNACK); ca == nil || ca.Reason != 0 {
		c.Inconclusive("C37 outbound: CONNECT refused")
		return
	}
	sub.send(subscribePkt(1, "ko/#", qos))
	pub, _ := dConnect(b, 5, "kpub", true, nil, nil)
	before := sub.MC.Deadlines()
	got := 0
	for i := 0; i < 6; i++ {
		pub.send(publishPkt("ko/t", qos, uint16(20+i), fmt.Sprintf("o%d", i), false))
		for _, rp := range sub.wait() {
			if rp.P.Type == rc.PUBLISH {
				got++
			}
		}
	}
	after := sub.MC.Deadlines()
	c.Count("outbound_packets_to_silent_client", int64(got))
	if got == 0 {
		c.Inconclusive("C37 outbound: the silent subscriber received nothing")
		return
	}
	if len(after) != len(before) {
		last := after[len(after)-1]
		c.Violate("C37/deadline-moved-by-outbound-traffic", map[string]string{"k": fmt.Sprint(K)}, fmt.Sprintf("keepalive %d s (MQTT %d): while the client sent nothing, %d packets written to it were accompanied by %d new deadline requests (last asks for %.3f s ahead): a client that only receives is never timed out",
			K, ver, got, len(after)-len(before), last.T.Sub(last.At).Seconds()), map[string]any{"keepalive": K, "version": ver, "qos": qos})
	}
}

// ---- behavioural part: real time over loopback TCP

type c37Timing struct {
	K        int     `json:"keepalive_s"`
	Rounds   int     `json:"rounds"`
	Gap      float64 `json:"gap_between_packets_s"`
	ClosedAt float64 `json:"closed_after_last_packet_s"`
	Lo       float64 `json:"must_not_close_before_s"`
	Hi       float64 `json:"must_be_closed_by_s"`
	Jitter   float64 `json:"worst_send_lateness_s"`
	Kind     string  `json:"packet_kind"`
}

func newTCPBroker() (*mqtt.Server, string, error) {
	s := mqtt.New(&mqtt.Options{Logger: quietLogger()})
	_ = s.AddHook(new(auth.AllowHook), nil)
	l := listeners.NewTCP(listeners.Config{ID: "t1", Address: "127.0.0.1:0"})
	if err := s.AddListener(l); err != nil {
		return nil, "", err
	}
	if err := s.Serve(); err != nil {
		return nil, "", err
	}
	return s, l.Address(), nil
}

// returns verdict: "", "inconclusive:<why>" or violation rule + detail
var c37Seq atomic.Int64

func c37Behaviour(addr string, K int, kind string, rounds int) (tm c37Timing, rule, detail string) {
	uniq := c37Seq.Add(1)
	early := float64(K) / 4
	if early < 0.25 {
		early = 0.25
	}
	late := float64(K)/4 + 0.3
	limit := 1.5 * float64(K)
	tm = c37Timing{K: K, Rounds: rounds, Gap: limit - early, Lo: limit - early, Hi: limit + late, Kind: kind}
	if K == 0 {
		tm.Gap = 0.5
	}
	conn, err := net.Dial("tcp", addr)
	if err != nil {
		return tm, "inconclusive", "dial: " + err.Error()
	}
	defer conn.Close()
	closed := make(chan time.Time, 1)
	var mu sync.Mutex
	var rxBytes int
	go func() {
		buf := make([]byte, 4096)
		for {
			n, err := conn.Read(buf)
			mu.Lock()
			rxBytes += n
			mu.Unlock()
			if err != nil {
				closed <- time.Now()
				return
			}
		}
	}()
	send := func(p *rc.Packet) (time.Time, error) {
		p.Version = 4
		_, err := conn.Write(rc.Encode(p, rc.FormAuto))
		return time.Now(), err
	}
	last, err := send(&rc.Packet{Type: rc.CONNECT, ProtoLevel: 4, ProtoName: "MQTT", ClientID: fmt.Sprintf("ka%d%s%d", K, kind, uniq), ConnectFlags: 2, KeepAlive: uint16(K)})
	if err != nil {
		return tm, "inconclusive", "write: " + err.Error()
	}
	gap := time.Duration(tm.Gap * float64(time.Second))
	if kind == "silent-receiver" {
		// subscribe, then say nothing more while a second connection keeps publishing to us: being written to is not activity
		rounds = 0
		if last, err = send(subscribePkt(1, fmt.Sprintf("ka/rx%d", uniq), 0)); err != nil {
			return tm, "inconclusive", "write: " + err.Error()
		}
		stop := make(chan struct{})
		defer close(stop)
		go func() {
			pc, err := net.Dial("tcp", addr)
			if err != nil {
				return
			}
			defer pc.Close()
			_, _ = pc.Write(rc.Encode(&rc.Packet{Type: rc.CONNECT, Version: 4, ProtoLevel: 4, ProtoName: "MQTT", ClientID: fmt.Sprintf("kapub%d", uniq), ConnectFlags: 2}, rc.FormAuto))
			for {
				select {
				case <-stop:
					return
				case <-time.After(time.Duration(float64(K) * 0.3 * float64(time.Second))):
					pp := publishPkt(fmt.Sprintf("ka/rx%d", uniq), 0, 0, "x", false)
					pp.Version = 4
					_, _ = pc.Write(rc.Encode(pp, rc.FormAuto))
				}
			}
		}()
	}
	for i := 0; i < rounds; i++ {
		due := last.Add(gap)
		select {
		case at := <-closed:
			return tm, "C37/closed-while-packets-arrive", fmt.Sprintf("keepalive %d s: connection closed %.3f s after packet %d although the next packet was due after %.3f s (< 1.5 x K = %.1f s)", K, at.Sub(last).Seconds(), i, tm.Gap, limit)
		case <-time.After(time.Until(due)):
		}
		p := &rc.Packet{Type: rc.PINGREQ}
		if kind == "publish" || (kind == "mixed" && i%2 == 1) {
			p = publishPkt("ka/t", 0, 0, "x", false)
		}
		var e error
		now := time.Now()
		if l := now.Sub(due).Seconds(); l > tm.Jitter {
			tm.Jitter = l
		}
		last, e = send(p)
		if e != nil {
			select {
			case at := <-closed:
				return tm, "C37/closed-while-packets-arrive", fmt.Sprintf("keepalive %d s: connection found closed %.3f s after the previous packet (gap %.3f s < %.1f s)", K, at.Sub(due.Add(-gap)).Seconds(), tm.Gap, limit)
			default:
			}
			return tm, "inconclusive", "write: " + e.Error()
		}
		if tm.Jitter > 0.08 {
			return tm, "inconclusive", fmt.Sprintf("harness sent a packet %.3f s late", tm.Jitter)
		}
	}
	if K == 0 {
		select {
		case at := <-closed:
			return tm, "C37/closed-with-keepalive-0", fmt.Sprintf("keepalive 0: connection closed after %.3f s of silence", at.Sub(last).Seconds())
		case <-time.After(3 * time.Second):
			tm.ClosedAt = -1
			return tm, "", ""
		}
	}
	// silence: the connection must stay open until 1.5K - early and be closed by 1.5K + late
	select {
	case at := <-closed:
		tm.ClosedAt = at.Sub(last).Seconds()
	case <-time.After(time.Duration((tm.Hi + 1.0) * float64(time.Second))):
		tm.ClosedAt = -1
	}
	switch {
	case tm.ClosedAt < 0:
		return tm, "C37/not-closed-after-timeout", fmt.Sprintf("keepalive %d s: connection still open %.2f s after the last packet (1.5 x K = %.1f s)", K, tm.Hi+1.0, limit)
	case tm.ClosedAt < tm.Lo:
		return tm, "C37/closed-early", fmt.Sprintf("keepalive %d s: connection closed %.3f s after the last packet, before 1.5 x K = %.1f s (margin %.2f s)", K, tm.ClosedAt, limit, early)
	case tm.ClosedAt > tm.Hi:
		return tm, "C37/closed-late", fmt.Sprintf("keepalive %d s: connection closed %.3f s after the last packet, later than 1.5 x K = %.1f s + %.2f s", K, tm.ClosedAt, limit, late)
	}
	return tm, "", ""
}

func checkC37(c *vk.Ctx) {
	c.Rule = "(state) for keepalive K in {0,1,2,3,5,7,10,60,65535} x MQTT 3.1.1/5 on an in-memory connection that records every SetDeadline request with the clock at the call: each request made after CONNECT must ask for 1.5 x K s (+0.05/-0.2 s), none with K=0; while a subscriber (K in {1,10,65535}, QoS 0/1) sends nothing and 6 messages are delivered to it, no new deadline request may appear (only packets from the client count as activity). " +
		"(behaviour, real time, loopback TCP listener, Serve() running) K in {1,2,3}: PINGREQ/PUBLISH packets sent every 1.5K - max(K/4,0.25) s for 3 rounds must not be answered by a close; after the last packet the connection must be closed between 1.5K - max(K/4,0.25) s and 1.5K + K/4 + 0.3 s; K=0: still open after 3 s of silence; silent-receiver: a subscriber that sends nothing after SUBSCRIBE while another connection publishes to it every 0.3K s must be closed in the same window. " +
		"A harness send more than 80 ms late makes the case inconclusive (retried up to three times). nontrivial = cases in which a close time or a deadline request was observed"
	c.Assumptions = []string{"wall-clock verdicts only with margins >= K/4; jitter guard turns late harness actions into inconclusive cases", "the read deadline set on the connection is what ends an idle connection (net.Conn semantics trusted)"}
	// state part
	for _, K := range []uint16{0, 1, 2, 3, 5, 7, 10, 60, 65535} {
		for _, ver := range []byte{4, 5} {
			if !c37DeadlineCase(c, ver, K, 0) {
				c37DeadlineCase(c, ver, K, 1)
			}
			c.Eval(vk.Hash("c37state", K, ver), true)
		}
	}
	for _, K := range []uint16{1, 10, 65535} {
		for _, ver := range []byte{4, 5} {
			for _, q := range []byte{0, 1} {
				c37OutboundCase(c, ver, K, q)
				c.Eval(vk.Hash("c37outbound", K, ver, q), true)
			}
		}
	}
	c.MinEvents["deadline_requests"] = 50
	c.MinEvents["outbound_packets_to_silent_client"] = 30
	// behavioural part
	s, addr, err := newTCPBroker()
	if err != nil {
		c.Inconclusive("cannot start loopback TCP listener: " + err.Error())
		return
	}
	defer s.Close()
	type bc struct {
		K    int
		kind string
	}
	cases := []bc{{1, "ping"}, {1, "mixed"}, {2, "ping"}, {2, "publish"}, {0, "ping"}, {3, "mixed"}, {1, "silent-receiver"}, {2, "silent-receiver"}}
	if !c.Quick() {
		for rep := 0; rep < 4; rep++ {
			cases = append(cases, bc{1, "ping"}, bc{1, "publish"}, bc{2, "mixed"}, bc{3, "ping"}, bc{3, "publish"}, bc{0, "mixed"}, bc{1 + rep%3, "silent-receiver"})
		}
	}
	var wg sync.WaitGroup
	for i, cs := range cases {
		wg.Add(1)
		go func(i int, cs bc) {
			defer wg.Done()
			time.Sleep(time.Duration(i) * 37 * time.Millisecond) // de-phase the cases
			var tm c37Timing
			var rule, detail string
			for attempt := 0; attempt < 4; attempt++ {
				tm, rule, detail = c37Behaviour(addr, cs.K, cs.kind, 3)
				if rule != "inconclusive" {
					break
				}
			}
			switch rule {
			case "":
				c.Count("behaviour_cases_decided", 1)
				c.Eval(vk.Hash("c37beh", i, cs), true)
			case "inconclusive":
				c.Inconclusive(fmt.Sprintf("C37 behaviour K=%d %s: %s", cs.K, cs.kind, detail))
			default:
				c.Count("behaviour_cases_decided", 1)
				c.Eval(vk.Hash("c37beh", i, cs), true)
				c.Violate(rule, map[string]string{"k": fmt.Sprint(cs.K)}, detail, tm)
			}
			if i < 4 {
				c.Sample(tm)
			}
		}(i, cs)
	}
	wg.Wait()
	c.MinEvents["behaviour_cases_decided"] = int64(len(cases) / 2)
}
