package main

import (
	"bufio"
	"bytes"
	"encoding/binary"
	"encoding/json"
	"fmt"
	"os"
	"os/exec"
	"path/filepath"
	"strconv"
	"sync"
	"syscall"

	"github.com/mochi-mqtt/server/v2/packets"

	rc "verif/harness/refcodec"
	"verif/harness/vk"
)

func init() {
	register("C27", "exploration", checkC27)
	children["c27"] = childC27
}

const c27Shards = 16
const c27MaxBody = 4096

// c27Inputs builds the deterministic input list for (seed, tier).
func c27Inputs(seed int64, quick bool) []decInput {
	per := 6
	nrand := 150000
	if !quick {
		per = 14
		nrand = 3000000
	}
	seeds := corpusSeeds(seed, per)
	var inputs []decInput
	for _, s := range seeds {
		inputs = append(inputs, s)
		systematicMutations(s, func(d decInput) { inputs = append(inputs, d) })
	}
	r := vk.Sub(seed, 2702)
	for i := 0; i < nrand; i++ {
		inputs = append(inputs, randomMutation(r, seeds))
	}
	return inputs
}

// guard is a buffer whose end abuts a PROT_NONE page: an over-read faults.
type guard struct {
	mem  []byte
	page int
}

func newGuard() (*guard, error) {
	page := os.Getpagesize()
	n := 2*page + page
	mem, err := syscall.Mmap(-1, 0, n, syscall.PROT_READ|syscall.PROT_WRITE, syscall.MAP_ANON|syscall.MAP_PRIVATE)
	if err != nil {
		return nil, err
	}
	if err := syscall.Mprotect(mem[2*page:], syscall.PROT_NONE); err != nil {
		return nil, err
	}
	return &guard{mem: mem, page: page}, nil
}

// place copies b so that it ends exactly at the guard page, with len == cap.
func (g *guard) place(b []byte) []byte {
	end := 2 * g.page
	s := g.mem[end-len(b) : end : end]
	copy(s, b)
	return s
}

type c27Msg struct {
	Kind   string            `json:"kind"`
	Rule   string            `json:"rule,omitempty"`
	Attrs  map[string]string `json:"attrs,omitempty"`
	Detail string            `json:"detail,omitempty"`
	Input  map[string]any    `json:"input,omitempty"`
	Counts map[string]int64  `json:"counts,omitempty"`
	Sample map[string]any    `json:"sample,omitempty"`
}

func inputJSON(in decInput) map[string]any {
	return map[string]any{"version": in.Ver, "hdr": fmt.Sprintf("%02x", in.Hdr), "body": fmt.Sprintf("% x", in.Body), "src": in.Src}
}

// childC27 args: seed tier shard start curfile
func childC27(args []string) {
	seed, _ := strconv.ParseInt(args[0], 10, 64)
	quick := args[1] != "thorough"
	shard, _ := strconv.Atoi(args[2])
	start, _ := strconv.Atoi(args[3])
	curPath := args[4]
	inputs := c27Inputs(seed, quick)
	g, err := newGuard()
	if err != nil {
		fmt.Fprintln(os.Stderr, "guard:", err)
		os.Exit(3)
	}
	// shared "current input" file, survives the process
	f, err := os.OpenFile(curPath, os.O_RDWR|os.O_CREATE, 0o644)
	if err != nil {
		os.Exit(3)
	}
	_ = f.Truncate(int64(c27MaxBody + 64))
	cur, err := syscall.Mmap(int(f.Fd()), 0, c27MaxBody+64, syscall.PROT_READ|syscall.PROT_WRITE, syscall.MAP_SHARED)
	if err != nil {
		os.Exit(3)
	}
	out := bufio.NewWriter(os.Stdout)
	defer out.Flush()
	emit := func(m c27Msg) {
		b, _ := json.Marshal(m)
		out.Write(b)
		out.WriteByte('\n')
	}
	counts := map[string]int64{}
	distinct := map[uint64]struct{}{}
	sampled := 0
	for idx, in := range inputs {
		if len(in.Body) > c27MaxBody {
			continue
		}
		h := vk.Hash(in.Ver, in.Hdr, in.Body)
		if int(h%c27Shards) != shard || idx < start {
			continue
		}
		// record before use
		binary.LittleEndian.PutUint32(cur[0:], uint32(idx))
		cur[4], cur[5] = in.Ver, in.Hdr
		binary.LittleEndian.PutUint32(cur[8:], uint32(len(in.Body)))
		copy(cur[16:], in.Body)
		binary.LittleEndian.PutUint32(cur[12:], 0xC0FFEE01) // marker: record complete

		body := g.place(in.Body)
		if os.Getenv("VERIF_C27_SELFTEST_FAULT") != "" && counts["inputs"] == 1000 {
			c27sink = g.mem[2*g.page] // deliberate over-read: validates the guard-page oracle (never set in registered checks)
		}
		counts["inputs"]++
		nontrivial := false

		// ---- target 1: packet decoders
		_, err, panicked := mochiDecode(in.Ver, in.Hdr, body)
		attrs := map[string]string{"type": rc.TypeNames[in.Hdr>>4], "v5": fmt.Sprint(in.Ver == 5), "target": "packet"}
		if panicked {
			emit(c27Msg{Kind: "viol", Rule: "C27/panic", Attrs: attrs, Detail: fmt.Sprintf("%s decode (version %d) panicked: %v", rc.TypeNames[in.Hdr>>4], in.Ver, err), Input: inputJSON(in)})
		}
		_, rerr := rc.DecodeBody(in.Ver, in.Hdr, in.Body, false)
		if rerr != nil && rc.IsShort(rerr) {
			counts["ref_overrun"]++
			nontrivial = true
			if err == nil {
				fhOK := (&packets.FixedHeader{}).Decode(in.Hdr) == nil
				if fhOK {
					emit(c27Msg{Kind: "viol", Rule: "C27/accepts-overrun", Attrs: attrs, Detail: fmt.Sprintf("a declared length runs past the end of the body (%v) but %s decode returned no error", rerr, rc.TypeNames[in.Hdr>>4]), Input: inputJSON(in)})
				}
			}
		}
		if err == nil {
			counts["accepted"]++
			nontrivial = true
		} else {
			counts["rejected"]++
		}

		// ---- target 2: Properties.Decode on the same bytes for the packet type (and will properties)
		for _, pt := range []byte{in.Hdr >> 4, packets.WillProperties} {
			if pt == 0 {
				continue
			}
			var props packets.Properties
			_, perr := safePropsDecode(&props, pt, body)
			pa := map[string]string{"type": fmt.Sprint(pt), "target": "properties"}
			if perr != nil && len(perr.Error()) >= 6 && perr.Error()[:6] == "panic:" {
				emit(c27Msg{Kind: "viol", Rule: "C27/panic", Attrs: pa, Detail: fmt.Sprintf("Properties.Decode(type %d) panicked: %v", pt, perr), Input: inputJSON(in)})
			}
			_, _, rperr := rc.DecodePropsOnly(in.Body, pt, false)
			if rperr != nil && rc.IsShort(rperr) && perr == nil {
				emit(c27Msg{Kind: "viol", Rule: "C27/accepts-overrun", Attrs: pa, Detail: fmt.Sprintf("property block runs past the end of the input (%v) but Properties.Decode returned no error", rperr), Input: inputJSON(in)})
			}
			counts["props_calls"]++
		}

		// ---- target 3: DecodeLength
		func() {
			defer func() {
				if r := recover(); r != nil {
					emit(c27Msg{Kind: "viol", Rule: "C27/panic", Attrs: map[string]string{"target": "DecodeLength"}, Detail: fmt.Sprint(r), Input: inputJSON(in)})
				}
			}()
			_, _, _ = packets.DecodeLength(bytes.NewReader(body))
		}()

		if nontrivial {
			distinct[h] = struct{}{}
		}
		if sampled < 1 && rerr != nil && rc.IsShort(rerr) && err != nil && shard == 0 {
			emit(c27Msg{Kind: "sample", Sample: map[string]any{"input": inputJSON(in), "reference": rerr.Error(), "mochi_error": err.Error()}})
			sampled++
		}
	}
	counts["distinct_nontrivial"] = int64(len(distinct))
	emit(c27Msg{Kind: "done", Counts: counts})
}

func checkC27(c *vk.Ctx) {
	if err := rc.SelfTest(); err != nil {
		fmt.Println("BROKEN refcodec selftest:", err)
		c.MinEvents["selftest"] = 1
		return
	}
	c.Rule = "inputs = well-formed packets of every type x version 3/4/5 from the reference generator + raw bytes of the broker's catalogue; every truncation of every seed; every byte set to {0,ff,+1,-1}; every 16-bit window set to ffff; PRNG mutations (bit flips, inserts, deletes, splices, version/header changes). " +
		"Each input is placed against a PROT_NONE guard page (len==cap) in a child process and fed to the type's Decode, to Properties.Decode (packet type and will properties) and to DecodeLength. Oracles: recover() (panic), child death by fault (over-read; last input is logged in a shared mapping first), checkptr via -race, " +
		"and the reference structural walker: if a declared length runs past the end of the input the decoder must return an error. FixedHeader.Decode is run on all 256 first bytes. nontrivial = distinct inputs that the decoder accepted or on which the reference detects an overrun"
	c.Assumptions = []string{"refcodec's structural walk is correct (self-tested)", "guard page catches reads past the supplied bytes at page granularity: the input ends exactly at the page boundary, so any read past its end faults",
		"a field that exceeds its property block but not the input is not counted as an overrun (weaker reading of 'available bytes')"}

	// FixedHeader.Decode on all first bytes
	for b := 0; b < 256; b++ {
		func() {
			defer func() {
				if r := recover(); r != nil {
					c.Violate("C27/panic", map[string]string{"target": "FixedHeader.Decode"}, fmt.Sprintf("byte %02x: %v", b, r), map[string]any{"byte": b})
				}
			}()
			fh := packets.FixedHeader{}
			_ = fh.Decode(byte(b))
		}()
	}
	c.Count("fixed_header_bytes", 256)

	bin := os.Getenv("VERIF_BIN")
	if bin == "" {
		bin, _ = os.Executable()
	}
	scratch := os.Getenv("VERIF_SCRATCH")
	if scratch == "" {
		scratch = os.TempDir()
	}
	var wg sync.WaitGroup
	var mu sync.Mutex
	totals := map[string]int64{}
	for sh := 0; sh < c27Shards; sh++ {
		wg.Add(1)
		go func(sh int) {
			defer wg.Done()
			start := 0
			curPath := filepath.Join(scratch, fmt.Sprintf("c27cur.%d", sh))
			for attempt := 0; attempt < 200; attempt++ {
				cmd := exec.Command(bin, "child", "c27", fmt.Sprint(c.Seed), c.Tier, fmt.Sprint(sh), fmt.Sprint(start), curPath)
				cmd.Env = append(os.Environ(), "GORACE=halt_on_error=0 log_path="+filepath.Join(scratch, fmt.Sprintf("c27race.%d", sh)))
				var stderr bytes.Buffer
				cmd.Stderr = &stderr
				outb, err := cmd.Output()
				done := false
				sc := bufio.NewScanner(bytes.NewReader(outb))
				sc.Buffer(make([]byte, 1<<20), 1<<26)
				for sc.Scan() {
					var m c27Msg
					if json.Unmarshal(sc.Bytes(), &m) != nil {
						continue
					}
					switch m.Kind {
					case "viol":
						c.Violate(m.Rule, m.Attrs, m.Detail, m.Input)
					case "sample":
						c.Sample(m.Sample)
					case "done":
						done = true
						mu.Lock()
						for k, v := range m.Counts {
							totals[k] += v
						}
						mu.Unlock()
					}
				}
				if done && err == nil {
					return
				}
				// child died: the shared mapping holds the input in use
				cur, rerr := os.ReadFile(curPath)
				if rerr != nil || len(cur) < 16 || binary.LittleEndian.Uint32(cur[12:]) != 0xC0FFEE01 {
					c.Inconclusive(fmt.Sprintf("shard %d: child died without a recorded input: %v; stderr: %s", sh, err, tailStr(stderr.String(), 400)))
					return
				}
				idx := int(binary.LittleEndian.Uint32(cur[0:]))
				l := int(binary.LittleEndian.Uint32(cur[8:]))
				in := decInput{Ver: cur[4], Hdr: cur[5], Body: append([]byte{}, cur[16:16+l]...), Src: "crash"}
				kind := "fault"
				se := stderr.String()
				switch {
				case bytes.Contains([]byte(se), []byte("checkptr")):
					kind = "checkptr"
				case bytes.Contains([]byte(se), []byte("unexpected fault address")) || bytes.Contains([]byte(se), []byte("SIGSEGV")):
					kind = "overread-fault"
				}
				c.Violate("C27/process-died", map[string]string{"kind": kind, "type": rc.TypeNames[in.Hdr>>4], "v5": fmt.Sprint(in.Ver == 5)},
					fmt.Sprintf("decoder child died (%v) while decoding input #%d: %s", err, idx, tailStr(se, 600)), inputJSON(in))
				mu.Lock()
				totals["child_deaths"]++
				mu.Unlock()
				start = idx + 1
			}
		}(sh)
	}
	wg.Wait()
	for k, v := range totals {
		c.Count(k, v)
	}
	// distinct is measured inside the children (inputs are sharded by hash, so shards are disjoint)
	hs := make([]uint64, totals["distinct_nontrivial"])
	for i := range hs {
		hs[i] = uint64(i) + 1
	}
	c.EvalBulk(totals["inputs"], hs)
	c.MinEvents["inputs"] = 50000
	c.MinEvents["ref_overrun"] = 5000
	c.MinEvents["accepted"] = 2000
}

func tailStr(s string, n int) string {
	if len(s) > n {
		return s[len(s)-n:]
	}
	return s
}

var c27sink byte
