package main

import (
	"fmt"

	"verif/harness/eng"
	"verif/harness/hist"
	rc "verif/harness/refcodec"
	"verif/harness/vk"
)

func init() {
	register("C04", "exploration", checkC04)
	register("C05", "exploration", checkC05)
	register("C06", "exploration", checkC06)
	register("C07", "exploration", checkC07)
}

func checkC04(c *vk.Ctx) {
	c.Rule = "random histories biased to subscription options: 1-3 overlapping subscriptions per client drawn from QoS 0-2 x identifier none/distinct x Retain As Published 0/1, publishes at QoS 0-2 with/without retain, server Maximum QoS 0/1/2, protocol versions 3.1/3.1.1/5, live and retained-on-subscribe deliveries. " +
		"Checked per delivery: QoS == min(published, highest matching subscription, server max); SUBACK code == min(requested, server max); subscription identifiers == those of the matching subscriptions (live and retained); retain flag per RAP/version. nontrivial = histories with >=1 delivery"
	c.Assumptions = []string{"when overlapping subscriptions disagree on Retain As Published either flag value is accepted (statement says 'the matching subscription')"}
	p := deliveryProfile()
	p.Name = "options"
	p.MaxQoS = []byte{0, 1, 2}
	p.RetainPct = 45
	p.EmptyPct = 10
	p.SubIDPct = 60
	p.RAPPct = 50
	p.NLPct = 0
	p.W = map[string]int{"connect": 2, "subscribe": 8, "unsubscribe": 1, "publish": 10, "disconnect": 1}
	h := &histRun{Prop: "C04", Profile: p, N: c.N(300, 8000), Label: 4, Nontrivial: []string{"publish_delivered"}}
	h.run(c)
	c.MinEvents["publish_delivered"] = 500
	c.MinEvents["retained_expected"] = 100
}

func checkC05(c *vk.Ctx) {
	c.Rule = "random histories of retained/non-retained publishes (incl. empty payloads) on 5 topics interleaved with (re)subscriptions under Retain Handling 0/1/2, shared filters, retain available on/off, v3/v4/v5: after each SUBSCRIBE the retained PUBLISH packets that follow the SUBACK must be exactly the model's latest retained message per matching topic " +
		"(nothing for deleted ones, nothing for shared filters, RH 1 only for new subscriptions, RH 2 never; nothing retained while retain is unavailable). nontrivial = histories in which >=1 retained delivery was expected"
	p := deliveryProfile()
	p.Name = "retain"
	p.RetainPct = 70
	p.EmptyPct = 25
	p.NLPct = 0
	p.RetainAvail = []bool{true, true, true, false}
	p.Filters = append(append([]string{}, baseFilters...), "$share/g/a/#", "$share/g/a/b")
	p.W = map[string]int{"connect": 2, "subscribe": 8, "unsubscribe": 2, "publish": 9, "disconnect": 1}
	h := &histRun{Prop: "C05", Profile: p, N: c.N(300, 8000), Label: 5, Nontrivial: []string{"retained_expected"}, Rules: []string{"C05/"}}
	h.run(c)
	c.MinEvents["retained_expected"] = 300
}

func sharedProfile() *hist.Profile {
	p := deliveryProfile()
	p.Name = "shared"
	p.IDs = []string{"c0", "c1", "c2", "c3", "c4"}
	p.SlotIDs = []int{0, 1, 2, 3, 4}
	p.Versions = []byte{5, 5, 4}
	p.Filters = []string{"$share/g1/a/#", "$share/g1/a/#", "$share/g2/a/b", "$share/g2/a/b", "$share/g3/+/b", "a/b", "a/#", "#"}
	p.NLPct = 0
	p.RetainPct = 5
	p.CleanPct = 100
	p.HowDisc = []string{"normal"}
	p.W = map[string]int{"subscribe": 8, "unsubscribe": 2, "publish": 12}
	return p
}

func checkC06(c *vk.Ctx) {
	c.Rule = "random share-group memberships (3 groups, 5 connected clients, members also holding overlapping non-shared subscriptions; all authorised; within one share name all members use the same filter) and publish sequences: per publish and group, the number of members that received it must be exactly 1 " +
		"(<=1 when a member is also entitled through a non-shared subscription, where selection is not observable), and no client receives two copies. nontrivial = histories with >=1 group publish"
	c.Assumptions = []string{"members stay connected (a chosen offline member at QoS 0 is a permitted silent omission, which would make 'exactly one' unobservable)"}
	h := &histRun{Prop: "C06", Profile: sharedProfile(), N: c.N(250, 6000), Label: 6, Nontrivial: []string{"shared_group_publishes"}, Rules: []string{"C06/", "C03/duplicate-delivery"}}
	h.run(c)
	c.MinEvents["shared_group_publishes"] = 300
	c.MinEvents["shared_exactly_one"] = 200
}

func checkC07(c *vk.Ctx) {
	c.Rule = "random request sequences over valid, unauthorised, $SYS and invalid-filter targets, QoS 0-2, v3.1.1 and v5, with an ACL relation that denies ~25% of accesses: every PUBLISH QoS1/2, PUBREL, SUBSCRIBE, UNSUBSCRIBE, PINGREQ on a connection that stays open must be answered by the matching packet type " +
		"with the request's packet id, and SUBACK/UNSUBACK must carry one code per filter; a third series gives the clients a Maximum Packet Size of 18-30 bytes (acknowledgements that would not fit must be shortened or answered by closing the connection). nontrivial = histories with >=1 acknowledged request"
	p := deliveryProfile()
	p.Name = "reqresp"
	p.Versions = []byte{4, 5, 5}
	p.DenyPct = 25
	p.DenySubPct = 20
	p.BadTopicPct = 12
	p.Filters = append(append([]string{}, baseFilters...), "a/b#", "a+", "$share//a", "$share/g/", "$share/g/a")
	p.W = map[string]int{"connect": 3, "subscribe": 5, "unsubscribe": 4, "publish": 10, "disconnect": 1, "ping": 3}
	h := &histRun{Prop: "C07", Profile: p, N: c.N(400, 10000), Label: 7, Nontrivial: []string{"rx_PUBACK", "rx_SUBACK"}}
	h.run(c)
	c.MinEvents["rx_PUBACK"] = 300
	c.MinEvents["rx_PUBCOMP"] = 100
	c.MinEvents["publish_refused_topic"] = 20
	// second profile: acknowledgements withheld so that broker-outbound ids stay outstanding, PUBREL packets that carry
	// such an id or belong to an exchange that is already complete, own publishes reusing outstanding ids
	p2 := *p
	p2.Name = "reqresp-ids"
	p2.DenyPct, p2.DenySubPct, p2.BadTopicPct = 0, 0, 0
	p2.Filters = baseFilters
	p2.SubQoS = []byte{1, 2, 2}
	p2.PubQoS = []byte{1, 2, 2}
	p2.CollidePct = 35
	p2.W = map[string]int{"connect": 3, "subscribe": 6, "publish": 12, "disconnect": 1, "ping": 2, "hold": 4, "ackone": 2, "pubrel": 6}
	h2 := &histRun{Prop: "C07", Profile: &p2, N: c.N(300, 8000), Label: 702, Nontrivial: []string{"pubrel_with_colliding_id"}}
	h2.run(c)
	c.MinEvents["pubrel_with_colliding_id"] = 100
	// third profile: clients that announce a small Maximum Packet Size, so that acknowledgements (failure codes come
	// with reason strings, user properties are echoed, SUBACKs grow with the number of filters) may not fit: the broker
	// must still answer (with a packet that fits) or close the connection, never carry on without answering
	p3 := *p
	p3.Name = "reqresp-mps"
	p3.Versions = []byte{5}
	p3.MPS = []uint32{18, 22, 30, 0}
	p3.PropsPct = 60
	p3.MultiFilter = true
	h3 := &histRun{Prop: "C07", Profile: &p3, N: c.N(300, 8000), Label: 703, Nontrivial: []string{"rx_PUBACK", "rx_SUBACK"}, Rules: []string{"C07/", "C23/exceeds-maximum-packet-size"}}
	h3.run(c)
	c07Probes(c)
}

// directed probes: PUBREL variants (unknown id, failure reason code) must be answered with PUBCOMP.
func c07Probes(c *vk.Ctx) {
	for _, ver := range []byte{4, 5} {
		b := eng.NewBroker(eng.Options{})
		d, _ := dConnect(b, ver, "p", true, nil, nil)
		// PUBREL for an id that was never used
		r := d.send(&rc.Packet{Type: rc.PUBREL, PacketID: 77})
		if hasType(r, rc.PUBCOMP) == nil && !d.closed() {
			c.Violate("C07/no-response", map[string]string{"kind": "PUBCOMP", "pubrel": "unknown-id", "v5": fmt.Sprint(ver == 5)}, "PUBREL for unknown id 77 not answered", map[string]any{"version": ver})
		}
		c.Eval(vk.Hash("c07probe-unknown", ver), true)
		if ver == 5 {
			// QoS 2 publish, then PUBREL carrying reason 0x92
			r = d.send(publishPkt("a", 2, 9, "x", false))
			if hasType(r, rc.PUBREC) == nil {
				c.Violate("C07/no-response", map[string]string{"kind": "PUBREC"}, "QoS 2 publish not answered", nil)
			}
			r = d.send(&rc.Packet{Type: rc.PUBREL, PacketID: 9, Reason: 0x92})
			if hasType(r, rc.PUBCOMP) == nil && !d.closed() {
				c.Violate("C07/no-response", map[string]string{"kind": "PUBCOMP", "pubrel": "failure-reason-code", "v5": "true"}, "PUBREL id 9 with reason 0x92 for an outstanding QoS 2 publish is not answered with PUBCOMP and the connection stays open", map[string]any{"sequence": "PUBLISH q2 id9; PUBREL id9 reason 0x92"})
			}
			c.Eval(vk.Hash("c07probe-reason", ver), true)
		}
		b.Shutdown()
	}
}
