package main

import (
	"fmt"
	"runtime"
	"sort"
	"strings"
	"sync"
	"sync/atomic"
	"time"

	"github.com/anishathalye/porcupine"
	mqtt "github.com/mochi-mqtt/server/v2"
	"github.com/mochi-mqtt/server/v2/packets"

	"verif/harness/refmatch"
	"verif/harness/vk"
)

func init() { register("C31", "exploration", checkC31) }

// One recorded operation on the topic index, decomposed per key: a key is one (client, filter)
// subscription slot or one retained topic. A map/set is linearizable iff every key's
// sub-history is, so the history is partitioned by key before checking.
type ixIn struct {
	Key  string // "S|client|filter" or "R|topic"
	Kind string // sub unsub retain clear read
	Arg  string // payload id for retain
	Via  string // for reads: the query that produced it
}
type ixOut struct {
	B bool   // sub: was new; unsub: existed
	N int64  // retain/clear return value
	V string // read: "1"/"" for subscriptions, payload id or "" for retained
}

var ixModel = porcupine.Model{
	Partition: func(h []porcupine.Operation) [][]porcupine.Operation {
		m := map[string][]porcupine.Operation{}
		var ks []string
		for _, op := range h {
			k := op.Input.(ixIn).Key
			if _, ok := m[k]; !ok {
				ks = append(ks, k)
			}
			m[k] = append(m[k], op)
		}
		sort.Strings(ks)
		out := make([][]porcupine.Operation, 0, len(ks))
		for _, k := range ks {
			out = append(out, m[k])
		}
		return out
	},
	Init: func() any { return "" },
	Step: func(st, in, out any) (bool, any) {
		s, i, o := st.(string), in.(ixIn), out.(ixOut)
		switch i.Kind {
		case "sub":
			return o.B == (s == ""), "1"
		case "unsub":
			return o.B == (s != ""), ""
		case "retain":
			return o.N == 1, i.Arg
		case "clear":
			want := int64(0)
			if s != "" {
				want = -1
			}
			return o.N == want, ""
		case "read":
			return o.V == s, s
		}
		return false, s
	},
	DescribeOperation: func(in, out any) string {
		i, o := in.(ixIn), out.(ixOut)
		switch i.Kind {
		case "sub", "unsub":
			return fmt.Sprintf("%s(%s) -> %v", i.Kind, i.Key, o.B)
		case "retain":
			return fmt.Sprintf("retain(%s,%s) -> %d", i.Key, i.Arg, o.N)
		case "clear":
			return fmt.Sprintf("clear(%s) -> %d", i.Key, o.N)
		}
		return fmt.Sprintf("read(%s via %s) -> %q", i.Key, i.Via, o.V)
	},
}

var c31Clients = []string{"c1", "c2"}
var c31Filters = []string{"a", "a/b", "a/+", "a/#", "+/b", "#", "a/b/c", "a/b/c/d", "+/b/#", "$share/g/a/b", "$share/g/a/#", "$share/h/a/b/c/d"}
var c31Topics = []string{"a", "a/b", "a/c", "b/b", "a/b/c", "a/b/c/d", "b/b/c/d/e"}

type ixRec struct {
	mu  sync.Mutex
	ops []porcupine.Operation
	clk atomic.Int64
}

func (r *ixRec) add(g int, in ixIn, out ixOut, t0, t1 int64) {
	r.mu.Lock()
	r.ops = append(r.ops, porcupine.Operation{ClientId: g, Input: in, Call: t0, Output: out, Return: t1})
	r.mu.Unlock()
}

type ixCmd struct {
	Kind, Client, Filter, Topic, Payload string
}

func (c ixCmd) String() string {
	switch c.Kind {
	case "sub", "unsub":
		return fmt.Sprintf("%s(%s,%s)", c.Kind, c.Client, c.Filter)
	case "retain":
		return fmt.Sprintf("retain(%s,%s)", c.Topic, c.Payload)
	case "clear":
		return fmt.Sprintf("clear(%s)", c.Topic)
	case "subscribers":
		return fmt.Sprintf("subscribers(%s)", c.Topic)
	}
	return fmt.Sprintf("messages(%s)", c.Filter)
}

func subIdent(client, filter string) int {
	return int(vk.Hash(client, filter)%60000) + 1
}

// exec runs one mutating command against the real index and records it.
func (r *ixRec) exec(x *mqtt.TopicsIndex, g int, c ixCmd) {
	switch c.Kind {
	case "sub":
		t0 := r.clk.Add(1)
		isNew := x.Subscribe(c.Client, packets.Subscription{Filter: c.Filter, Qos: 1, Identifier: subIdent(c.Client, c.Filter)})
		r.add(g, ixIn{Key: "S|" + c.Client + "|" + c.Filter, Kind: "sub"}, ixOut{B: isNew}, t0, r.clk.Add(1))
	case "unsub":
		t0 := r.clk.Add(1)
		ex := x.Unsubscribe(c.Filter, c.Client)
		r.add(g, ixIn{Key: "S|" + c.Client + "|" + c.Filter, Kind: "unsub"}, ixOut{B: ex}, t0, r.clk.Add(1))
	case "retain":
		t0 := r.clk.Add(1)
		n := x.RetainMessage(packets.Packet{FixedHeader: packets.FixedHeader{Type: packets.Publish, Retain: true}, TopicName: c.Topic, Payload: []byte(c.Payload)})
		r.add(g, ixIn{Key: "R|" + c.Topic, Kind: "retain", Arg: c.Payload}, ixOut{N: n}, t0, r.clk.Add(1))
	case "clear":
		t0 := r.clk.Add(1)
		n := x.RetainMessage(packets.Packet{FixedHeader: packets.FixedHeader{Type: packets.Publish, Retain: true}, TopicName: c.Topic})
		r.add(g, ixIn{Key: "R|" + c.Topic, Kind: "clear"}, ixOut{N: n}, t0, r.clk.Add(1))
	}
}

// subscribersOf canonicalises a Subscribers result as the set of "client|filter" entries.
func subscribersOf(x *mqtt.TopicsIndex, topic string) map[string]bool {
	res := x.Subscribers(topic)
	got := map[string]bool{}
	for cl, s := range res.Subscriptions {
		if s.Identifiers == nil {
			got[cl+"|"+s.Filter] = true
		}
		for f := range s.Identifiers {
			got[cl+"|"+f] = true
		}
	}
	for f, m := range res.Shared {
		for cl := range m {
			got[cl+"|"+f] = true
		}
	}
	return got
}

func messagesOf(x *mqtt.TopicsIndex, filter string) (map[string]string, int) {
	got := map[string]string{}
	dups := 0
	for _, pk := range x.Messages(filter) {
		if _, ok := got[pk.TopicName]; ok {
			dups++
		}
		got[pk.TopicName] = string(pk.Payload)
	}
	return got, dups
}

func shareInner(f string) string {
	if _, inner, ok := refmatch.SplitShare(f); ok {
		return inner
	}
	return f
}

// audit queries every topic and filter sequentially (part of the history) and decomposes the answers per key.
func (r *ixRec) audit(x *mqtt.TopicsIndex, g int, foreign *[]string) {
	for _, t := range c31Topics {
		t0 := r.clk.Add(1)
		got := subscribersOf(x, t)
		t1 := r.clk.Add(1)
		for _, cl := range c31Clients {
			for _, f := range c31Filters {
				if !refmatch.Match(shareInner(f), t) {
					continue
				}
				v := ""
				if got[cl+"|"+f] {
					v = "1"
				}
				delete(got, cl+"|"+f)
				r.add(g, ixIn{Key: "S|" + cl + "|" + f, Kind: "read", Via: "Subscribers(" + t + ")"}, ixOut{V: v}, t0, t1)
			}
		}
		for k := range got {
			*foreign = append(*foreign, fmt.Sprintf("Subscribers(%s) contains %s", t, k))
		}
	}
	for _, f := range c31Filters {
		if strings.HasPrefix(f, "$share/") {
			continue
		}
		t0 := r.clk.Add(1)
		got, dups := messagesOf(x, f)
		t1 := r.clk.Add(1)
		if dups > 0 {
			*foreign = append(*foreign, fmt.Sprintf("Messages(%s) returned %d duplicate topics", f, dups))
		}
		for _, t := range c31Topics {
			if !refmatch.Match(f, t) {
				continue
			}
			r.add(g, ixIn{Key: "R|" + t, Kind: "read", Via: "Messages(" + f + ")"}, ixOut{V: got[t]}, t0, t1)
			delete(got, t)
		}
		for k := range got {
			*foreign = append(*foreign, fmt.Sprintf("Messages(%s) contains %s", f, k))
		}
	}
}

func genIxCmd(r *vk.Rand, n *int) ixCmd {
	switch r.Intn(10) {
	case 0, 1, 2:
		return ixCmd{Kind: "sub", Client: vk.Pick(r, c31Clients), Filter: vk.Pick(r, c31Filters)}
	case 3, 4, 5:
		return ixCmd{Kind: "unsub", Client: vk.Pick(r, c31Clients), Filter: vk.Pick(r, c31Filters)}
	case 6, 7:
		*n++
		return ixCmd{Kind: "retain", Topic: vk.Pick(r, c31Topics), Payload: fmt.Sprintf("p%d", *n)}
	default:
		return ixCmd{Kind: "clear", Topic: vk.Pick(r, c31Topics)}
	}
}

func checkC31(c *vk.Ctx) {
	c.Rule = "histories on a fresh TopicsIndex: a sequential setup (0-8 ops), then a batch run by 1 (sequential pre-pass) or 2-6 goroutines x 3-12 operations drawn from Subscribe/Unsubscribe (2 clients x 12 filters incl. wildcards, 4-level paths and $share) and RetainMessage set/clear (7 topics, unique payloads) with Gosched perturbation, " +
		"while reader goroutines call Subscribers/Messages; then a sequential audit (Subscribers for every topic, Messages for every filter) recorded as part of the history. Calls are stamped at the call boundary from one atomic counter. The history is decomposed per key ((client,filter) slot / retained topic) and checked with porcupine against a register model " +
		"(Subscribe returns 'was new', Unsubscribe 'existed', RetainMessage 1 / -1 / 0; an audit read must see the value some linearization leaves). Concurrent reads are checked only for what every reading of the statement implies: entries set up before the batch and untouched by it must be reported, entries never created must not. nontrivial = histories whose batch overlapped (>=2 goroutines) and contained >=1 mutation that changed state"
	c.Assumptions = []string{"mutators are checked for linearizability w.r.t. real-time order, which is at least as strong as 'some serial order consistent with per-goroutine order'; the unchanged code holds the index lock for the whole of each mutator, so this cannot alarm on it",
		"matching by refmatch (C01 decides matching itself); a result entry whose filter does not match the queried topic is reported under C31/audit-foreign-entry"}
	n := c.N(4000, 60000)
	var illegal, unknown atomic.Int64
	vk.Parallel(n, 0, func(i int) {
		r := vk.Sub(c.Seed, 31, uint64(i))
		x := mqtt.NewTopicsIndex()
		rec := &ixRec{}
		G := 1
		if i%8 != 0 {
			G = r.Range(2, 6)
		}
		K := r.Range(3, 12)
		pn := 0
		// setup
		var setup []ixCmd
		for k := r.Intn(9); k > 0; k-- {
			cmd := genIxCmd(r, &pn)
			if cmd.Kind == "unsub" || cmd.Kind == "clear" {
				cmd = ixCmd{Kind: "sub", Client: vk.Pick(r, c31Clients), Filter: vk.Pick(r, c31Filters)}
			}
			setup = append(setup, cmd)
			rec.exec(x, 0, cmd)
		}
		batch := make([][]ixCmd, G)
		touched := map[string]bool{}
		for g := range batch {
			for k := 0; k < K; k++ {
				cmd := genIxCmd(r, &pn)
				batch[g] = append(batch[g], cmd)
				if cmd.Kind == "sub" || cmd.Kind == "unsub" {
					touched["S|"+cmd.Client+"|"+cmd.Filter] = true
				} else {
					touched["R|"+cmd.Topic] = true
				}
			}
		}
		// stable facts for concurrent readers
		stableSub := map[string]bool{}
		stableRet := map[string]string{}
		everSub := map[string]bool{}
		everRet := map[string]bool{}
		for _, cmd := range setup {
			if cmd.Kind == "sub" {
				everSub[cmd.Client+"|"+cmd.Filter] = true
				if !touched["S|"+cmd.Client+"|"+cmd.Filter] {
					stableSub[cmd.Client+"|"+cmd.Filter] = true
				}
			} else if cmd.Kind == "retain" {
				everRet[cmd.Topic] = true
				if !touched["R|"+cmd.Topic] {
					stableRet[cmd.Topic] = cmd.Payload
				}
			}
		}
		for _, b := range batch {
			for _, cmd := range b {
				if cmd.Kind == "sub" {
					everSub[cmd.Client+"|"+cmd.Filter] = true
				} else if cmd.Kind == "retain" {
					everRet[cmd.Topic] = true
				}
			}
		}
		var wg sync.WaitGroup
		var stop atomic.Bool
		var readerViol []string
		var rmu sync.Mutex
		var reads atomic.Int64
		nReaders := 0
		if G > 1 {
			nReaders = r.Range(1, 2)
		}
		seeds := make([]uint64, nReaders)
		for k := range seeds {
			seeds[k] = r.U64()
		}
		var rwg sync.WaitGroup
		for k := 0; k < nReaders; k++ {
			rwg.Add(1)
			go func(k int) {
				defer rwg.Done()
				rr := vk.NewRand(seeds[k])
				for !stop.Load() {
					if rr.Bool() {
						t := vk.Pick(rr, c31Topics)
						got := subscribersOf(x, t)
						reads.Add(1)
						for key := range stableSub {
							f := key[strings.IndexByte(key, '|')+1:]
							if refmatch.Match(shareInner(f), t) && !got[key] {
								rmu.Lock()
								readerViol = append(readerViol, fmt.Sprintf("concurrent Subscribers(%s) misses %s, subscribed before the batch and not touched by it", t, key))
								rmu.Unlock()
							}
						}
						for key := range got {
							if !everSub[key] {
								rmu.Lock()
								readerViol = append(readerViol, fmt.Sprintf("concurrent Subscribers(%s) contains %s, which nobody ever subscribed", t, key))
								rmu.Unlock()
							}
						}
					} else {
						f := vk.Pick(rr, c31Filters[:9])
						got, _ := messagesOf(x, f)
						reads.Add(1)
						for t, p := range stableRet {
							if refmatch.Match(f, t) && got[t] != p {
								rmu.Lock()
								readerViol = append(readerViol, fmt.Sprintf("concurrent Messages(%s) returns %q for %s, retained as %s before the batch and not touched by it", f, got[t], t, p))
								rmu.Unlock()
							}
						}
						for t := range got {
							if !everRet[t] {
								rmu.Lock()
								readerViol = append(readerViol, fmt.Sprintf("concurrent Messages(%s) contains %s, which nobody ever retained", f, t))
								rmu.Unlock()
							}
						}
					}
					runtime.Gosched()
				}
			}(k)
		}
		gseeds := make([]uint64, G)
		for g := range gseeds {
			gseeds[g] = r.U64()
		}
		start := make(chan struct{})
		for g := 0; g < G; g++ {
			wg.Add(1)
			go func(g int) {
				defer wg.Done()
				gr := vk.NewRand(gseeds[g])
				<-start
				for _, cmd := range batch[g] {
					rec.exec(x, g+1, cmd)
					if gr.Chance(40) {
						runtime.Gosched()
					}
				}
			}(g)
		}
		close(start)
		wg.Wait()
		stop.Store(true)
		rwg.Wait()
		var foreign []string
		rec.audit(x, 0, &foreign)

		// overlap: did operations of different goroutines actually interleave?
		overlapped := false
		changed := false
		for a := range rec.ops {
			oa := rec.ops[a]
			if in := oa.Input.(ixIn); in.Kind != "read" && (oa.Output.(ixOut).B || oa.Output.(ixOut).N != 0) {
				changed = true
			}
			for b := a + 1; b < len(rec.ops) && !overlapped; b++ {
				ob := rec.ops[b]
				if oa.ClientId != ob.ClientId && oa.ClientId > 0 && ob.ClientId > 0 && oa.Call < ob.Return && ob.Call < oa.Return {
					overlapped = true
				}
			}
		}
		// order of first operations across goroutines = a cheap interleaving signature
		if G > 1 {
			sig := make([]string, 0, 8)
			ops := append([]porcupine.Operation{}, rec.ops...)
			sort.Slice(ops, func(a, b int) bool { return ops[a].Call < ops[b].Call })
			for _, o := range ops {
				if o.ClientId > 0 && len(sig) < 10 {
					sig = append(sig, fmt.Sprint(o.ClientId))
				}
			}
			c.Seen("batch_start_orders", strings.Join(sig, ""))
		}
		c.Count("operations", int64(len(rec.ops)))
		c.Count("concurrent_reads", reads.Load())
		if overlapped {
			c.Count("histories_with_overlap", 1)
		}
		res, info := porcupine.CheckOperationsVerbose(ixModel, rec.ops, 20*time.Second)
		attrConc := fmt.Sprint(G > 1)
		describe := func() map[string]any {
			w := map[string]any{"case": i, "goroutines": G, "setup": fmt.Sprint(setup)}
			for g := range batch {
				w[fmt.Sprintf("goroutine_%d", g+1)] = fmt.Sprint(batch[g])
			}
			return w
		}
		switch res {
		case porcupine.Illegal:
			illegal.Add(1)
			w := describe()
			// find the failing partitions: re-check each key alone
			parts := ixModel.Partition(rec.ops)
			var bad []string
			kinds := map[string]bool{}
			for _, p := range parts {
				if porcupine.CheckOperations(porcupine.Model{Init: ixModel.Init, Step: ixModel.Step}, p) {
					continue
				}
				sort.Slice(p, func(a, b int) bool { return p[a].Call < p[b].Call })
				var lines []string
				for _, o := range p {
					lines = append(lines, fmt.Sprintf("g%d [%d,%d] %s", o.ClientId, o.Call, o.Return, ixModel.DescribeOperation(o.Input, o.Output)))
					kinds[o.Input.(ixIn).Key[:1]] = true
				}
				bad = append(bad, strings.Join(lines, "\n"))
				if len(bad) >= 3 {
					break
				}
			}
			w["non_linearizable_keys"] = bad
			_ = info
			kind := "subscription"
			if kinds["R"] && !kinds["S"] {
				kind = "retained"
			} else if kinds["R"] {
				kind = "both"
			}
			c.Violate("C31/not-linearizable", map[string]string{"concurrent": attrConc, "key_kind": kind}, fmt.Sprintf("history %d (%d goroutines): no linearization explains the recorded return values and audit reads; first failing key:\n%s", i, G, first(bad)), w)
		case porcupine.Unknown:
			unknown.Add(1)
			c.Inconclusive(fmt.Sprintf("history %d: porcupine timed out", i))
		}
		if len(foreign) > 0 {
			c.Violate("C31/audit-foreign-entry", map[string]string{"concurrent": attrConc}, strings.Join(foreign, "; "), describe())
		}
		if len(readerViol) > 0 {
			c.Violate("C31/concurrent-read", map[string]string{"missed": fmt.Sprint(strings.Contains(readerViol[0], "misses") || strings.Contains(readerViol[0], "returns")), "phantom": fmt.Sprint(strings.Contains(readerViol[0], "nobody"))}, readerViol[0], describe())
		}
		c.Eval(vk.Hash("c31", i, fmt.Sprint(setup), fmt.Sprint(batch)), overlapped && changed)
		if i < 2 {
			c.Sample(describe())
		}
	})
	c.Count("porcupine_illegal", illegal.Load())
	c.Count("porcupine_unknown", unknown.Load())
	c.MinEvents["histories_with_overlap"] = int64(n / 20)
	c.MinEvents["concurrent_reads"] = int64(n / 4)
}

func first(s []string) string {
	if len(s) == 0 {
		return "(none isolated)"
	}
	return s[0]
}
