package main

import (
	"fmt"

	mqtt "github.com/mochi-mqtt/server/v2"

	"verif/harness/hist"
	rc "verif/harness/refcodec"
	"verif/harness/vk"
)

func init() { register("C20", "exploration", checkC20) }

func persistProfile() *hist.Profile {
	p := deliveryProfile()
	p.Name = "persist"
	p.IDs = []string{"a", "a:b", "é", "x_1"}
	p.SlotIDs = []int{0, 1, 2, 3}
	p.Versions = []byte{4, 5, 5}
	p.Topics = []string{"c", "b:c", "t/1", "é/日", "t/1:2"}
	p.Filters = []string{"c", "b:c", "t/#", "é/+", "$share/g/s/1", "t/1", "#"} // nothing is published to s/1: shared subscriptions are compared in the restored index only
	p.CleanPct = 30
	p.Expiry = []uint32{0, 300, 300}
	p.RetainPct = 30
	p.EmptyPct = 20
	p.NLPct = 20
	p.RPI0Pct = 0
	p.HowDisc = []string{"normal", "drop"}
	p.MsgExp = []uint32{0, 0, 150}
	p.ConnectAllFirst = true
	p.NoSelfTakeover = true
	p.Steps = [2]int{25, 55}
	p.W = map[string]int{"connect": 6, "subscribe": 6, "unsubscribe": 2, "publish": 12, "disconnect": 5, "hold": 3, "ackone": 1}
	return p
}

// weaveRestarts inserts 1-2 restarts, keeps virtual time still before the last one and adds expiry ticks after it.
func weaveRestarts(r *vk.Rand, ops []hist.Op, ticksAfter bool) []hist.Op {
	n := r.Range(1, 2)
	pos := map[int]bool{}
	for k := 0; k < n; k++ {
		pos[r.Range(len(ops)/3, len(ops)-1)] = true
	}
	var out []hist.Op
	for i, op := range ops {
		if op.Kind == "tick" {
			continue
		}
		out = append(out, op)
		if pos[i] {
			out = append(out, hist.Op{Kind: "restart"})
		}
	}
	// epilogue: one more restart, then everybody resumes and traffic flows again
	out = append(out, hist.Op{Kind: "restart"})
	if ticksAfter && r.Chance(50) {
		out = append(out, hist.Op{Kind: "tick", Delta: int64(vk.Pick(r, []int{100, 200}))})
	}
	return out
}

func checkC20(c *vk.Ctx) {
	c.Rule = "per backend (badger, pebble, bolt, redis via in-process miniredis): random histories over client ids {a, a:b, é, x_1}, filters {c, b:c, t/#, é/+, $share/g/s/1 (index comparison only), t/1, #} and topics {c, b:c, t/1, é/日, t/1:2} (MQTT 3.1.1/5, clean start 0/1, session expiry absent/300, subscriptions with all options, QoS 0-2 publishes, retained set/clear, withheld acknowledgements so that messages stay in flight, message expiry; a second series with MQTT 5 clients announcing Receive Maximum 1/2 so that some in-flight messages are held back by the broker) with 2-3 orderly restarts (Server.Close, new broker and new hook instance on the same store, store loaded as Serve does) woven in, the last one followed by reconnects and traffic. " +
		"After every restart the restarted broker's sessions (existence and effective expiry setting), topic-index subscriptions with options, retained messages and in-flight records (payload, PUBLISH/PUBREL, packet id) are compared with the reference model; afterwards the history continues and every delivery, session-present flag, resend and retained replay is judged by the same model as in C03-C09/C14. nontrivial = histories with >=1 restart at which >=1 session, subscription, retained or in-flight record had to be restored"
	c.Assumptions = []string{"the clock of restored sessions restarts at the restart (the statement requires the expiry settings, not the remaining time)", "delayed wills are not used in this profile (they live in memory only)",
		"stores are closed cleanly (engine durability is not under test)"}
	per := c.N(12, 500)
	for bi, backend := range backendNames {
		backend := backend
		p := persistProfile()
		h := &histRun{Prop: "C20", Profile: p, N: per, Label: 2000 + uint64(bi), Nontrivial: []string{"sessions_restored_checked", "retained_restored_checked", "inflight_restored_checked"},
			Rules: []string{"C20/", "C03/", "C04/", "C05/", "C09/", "C14/session-present"}, Extra: map[string]any{"backend": backend},
			Skip: func(f hist.Finding) bool { return f.Attrs["nolocal_overlap_disagree"] == "true" }, // recorded under C03
			Mutate: func(r *vk.Rand, cfg *hist.Config, ops []hist.Op) []hist.Op {
				ops = weaveRestarts(r, ops, true)
				// epilogue traffic: everybody resumes, every topic gets a message
				for sl := 0; sl < 4; sl++ {
					ops = append(ops, hist.Op{Kind: "connect", C: sl, Ver: 5, Clean: false, Expiry: 300, ExpirySet: true})
				}
				for ti, t := range p.Topics {
					ops = append(ops, hist.Op{Kind: "publish", C: ti % 4, Topic: t, QoS: byte(ti % 3)})
				}
				return ops
			},
			PerCase: func(i int) (*hist.SimOptions, func()) {
				site, err := newStoreSite(backend)
				if err != nil {
					panic(err)
				}
				return &hist.SimOptions{StoreOpen: func() (mqtt.Hook, any) { return site.open() }}, site.destroy
			}}
		h.run(c)
		c.Count("backend_"+backend+"_histories", int64(per))
		// the same with small client Receive Maximum values: messages beyond the quota are held back by the broker and
		// are in-flight records like the others when the broker stops
		prm := persistProfile()
		prm.Name = "persist-rm"
		prm.Versions = []byte{5}
		prm.RecvMax = []uint16{1, 2, 0}
		prm.W["hold"], prm.W["publish"] = 6, 16
		hrm := *h
		hrm.Profile, hrm.N, hrm.Label = prm, (per+1)/2, 2100+uint64(bi)
		// deliveries around held-back messages are judged by C09/C11/C25 (three recorded findings live there); here only
		// what the restart restores
		hrm.Rules = []string{"C20/", "C14/session-present"}
		hrm.run(c)
		c.Count("backend_"+backend+"_histories_with_receive_maximum", int64(hrm.N))
		// directed probe for the recorded key-collision finding: ids "a" / "a:b" with filters "b:c" / "c" share the key SUB_a:b:c
		sub := func(f string) []rc.SubFilter { return []rc.SubFilter{{Filter: f, Options: 1}} }
		h.directed(c, "sub-key-collision/"+backend, &hist.Config{MaxQoS: 2, RetainAvailable: true}, []string{"a", "a:b", "é", "x_1"}, []hist.Op{
			{Kind: "connect", C: 0, Ver: 5, Expiry: 300, ExpirySet: true},
			{Kind: "connect", C: 1, Ver: 5, Expiry: 300, ExpirySet: true},
			{Kind: "subscribe", C: 0, Filters: sub("b:c")},
			{Kind: "subscribe", C: 1, Filters: sub("c")},
			{Kind: "disconnect", C: 0, How: "normal"},
			{Kind: "disconnect", C: 1, How: "normal"},
			{Kind: "restart"},
		})
	}
	c.MinEvents["restarts"] = int64(per) * 4
	c.MinEvents["sessions_restored_checked"] = int64(per) * 4
	c.MinEvents["inflight_restored_checked"] = int64(per)
	c.MinEvents["retained_restored_checked"] = int64(per)
	_ = fmt.Sprint
}
