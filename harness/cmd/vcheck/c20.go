package main

import (
	"fmt"
	"strings"

	mqtt "github.com/mochi-mqtt/server/v2"

	"verif/harness/eng"
	"verif/harness/hist"
	rc "verif/harness/refcodec"
	"verif/harness/vk"
)

func init() { register("C20", "exploration", checkC20) }

func persistProfile() *hist.Profile {
	p := deliveryProfile()
	p.Name = "persist"
	p.IDs = []string{"a", "a:b", "é", "x_1"}
	p.SlotIDs = []int{0, 1, 2, 3}
	p.Versions = []byte{4, 5, 5}
	p.Topics = []string{"c", "b:c", "t/1", "é/日", "t/1:2"}
	p.Filters = []string{"c", "b:c", "t/#", "é/+", "$share/g/s/1", "t/1", "#"} // nothing is published to s/1: shared subscriptions are compared in the restored index only
	p.CleanPct = 30
	p.Expiry = []uint32{0, 300, 300}
	p.RetainPct = 30
	p.EmptyPct = 20
	p.NLPct = 20
	p.RPI0Pct = 0
	p.HowDisc = []string{"normal", "drop"}
	p.MsgExp = []uint32{0, 0, 150}
	p.DiscExpiry = []uint32{0, 130, 600} // a normal v5 DISCONNECT may change the session expiry interval: the last value is what a restart must bring back
	p.DiscExpPct = 40
	p.ConnectAllFirst = true
	p.NoSelfTakeover = true
	p.Steps = [2]int{25, 55}
	p.W = map[string]int{"connect": 6, "subscribe": 6, "unsubscribe": 2, "publish": 12, "disconnect": 5, "hold": 3, "ackone": 1}
	return p
}

// weaveRestarts inserts 1-2 restarts, keeps virtual time still before the last one and adds expiry ticks after it.
func weaveRestarts(r *vk.Rand, ops []hist.Op, ticksAfter bool) []hist.Op {
	n := r.Range(1, 2)
	pos := map[int]bool{}
	for k := 0; k < n; k++ {
		pos[r.Range(len(ops)/3, len(ops)-1)] = true
	}
	var out []hist.Op
	for i, op := range ops {
		if op.Kind == "tick" {
			continue
		}
		out = append(out, op)
		if pos[i] {
			out = append(out, hist.Op{Kind: "restart"})
		}
	}
	// epilogue: one more restart, then everybody resumes and traffic flows again
	out = append(out, hist.Op{Kind: "restart"})
	if ticksAfter && r.Chance(50) {
		out = append(out, hist.Op{Kind: "tick", Delta: int64(vk.Pick(r, []int{100, 200}))})
	}
	return out
}

func checkC20(c *vk.Ctx) {
	c.Rule = "per backend (badger, pebble, bolt, redis via in-process miniredis): random histories over client ids {a, a:b, é, x_1}, filters {c, b:c, t/#, é/+, $share/g/s/1 (index comparison only), t/1, #} and topics {c, b:c, t/1, é/日, t/1:2} (MQTT 3.1.1/5, clean start 0/1, session expiry absent/300 and changed by DISCONNECT to 0/130/600, subscriptions with all options, QoS 0-2 publishes, retained set/clear, withheld acknowledgements so that messages stay in flight, message expiry; a second series with MQTT 5 clients announcing Receive Maximum 1/2 so that some in-flight messages are held back by the broker) with 2-3 orderly restarts (Server.Close, new broker and new hook instance on the same store, store loaded as Serve does) woven in, the last one followed by reconnects and traffic. " +
		"After every restart the restarted broker's sessions (existence and effective expiry setting), topic-index subscriptions with options, retained messages and in-flight records (payload, PUBLISH/PUBREL, packet id) are compared with the reference model; every retained message and in-flight PUBLISH/PUBREL that the broker held in memory before the shutdown and holds again afterwards is compared field by field (payload, QoS, origin, creation and expiry time, message expiry interval, content type, response topic, correlation data, user properties, payload format, subscription identifiers); a directed probe per backend replaces retained messages by messages with the same payload but other properties, QoS or expiry (and clears and re-sets one) before the restart; afterwards the history continues and every delivery, session-present flag, resend and retained replay is judged by the same model as in C03-C09/C14. nontrivial = histories with >=1 restart at which >=1 session, subscription, retained or in-flight record had to be restored"
	c.Assumptions = []string{"the clock of restored sessions restarts at the restart (the statement requires the expiry settings, not the remaining time)", "delayed wills are not used in this profile (they live in memory only)",
		"stores are closed cleanly (engine durability is not under test)"}
	per := c.N(12, 500)
	for bi, backend := range backendNames {
		backend := backend
		p := persistProfile()
		h := &histRun{Prop: "C20", Profile: p, N: per, Label: 2000 + uint64(bi), Nontrivial: []string{"sessions_restored_checked", "retained_restored_checked", "inflight_restored_checked"},
			Rules: []string{"C20/", "C03/", "C04/", "C05/", "C09/", "C14/session-present"}, Extra: map[string]any{"backend": backend},
			Skip: func(f hist.Finding) bool { return f.Attrs["nolocal_overlap_disagree"] == "true" }, // recorded under C03
			Mutate: func(r *vk.Rand, cfg *hist.Config, ops []hist.Op) []hist.Op {
				ops = weaveRestarts(r, ops, true)
				// epilogue traffic: everybody resumes, every topic gets a message
				for sl := 0; sl < 4; sl++ {
					ops = append(ops, hist.Op{Kind: "connect", C: sl, Ver: 5, Clean: false, Expiry: 300, ExpirySet: true})
				}
				for ti, t := range p.Topics {
					ops = append(ops, hist.Op{Kind: "publish", C: ti % 4, Topic: t, QoS: byte(ti % 3)})
				}
				return ops
			},
			PerCase: func(i int) (*hist.SimOptions, func()) {
				site, err := newStoreSite(backend)
				if err != nil {
					panic(err)
				}
				return &hist.SimOptions{StoreOpen: func() (mqtt.Hook, any) { return site.open() }}, site.destroy
			}}
		h.run(c)
		c.Count("backend_"+backend+"_histories", int64(per))
		// the same with small client Receive Maximum values: messages beyond the quota are held back by the broker and
		// are in-flight records like the others when the broker stops
		prm := persistProfile()
		prm.Name = "persist-rm"
		prm.Versions = []byte{5}
		prm.RecvMax = []uint16{1, 2, 0}
		prm.NLPct = 0 // (No Local on overlapping subscriptions is a recorded finding of its own; a held-back expectation would hide its one-time flag)
		prm.W["hold"], prm.W["publish"] = 6, 16
		hrm := *h
		hrm.Profile, hrm.N, hrm.Label = prm, (per+1)/2, 2100+uint64(bi)
		// deliveries around held-back messages are judged by C09/C11/C25 (three recorded findings live there); here only
		// what the restart restores
		hrm.Rules = []string{"C20/", "C14/session-present"}
		hrm.run(c)
		c.Count("backend_"+backend+"_histories_with_receive_maximum", int64(hrm.N))
		// directed probe for the recorded key-collision finding: ids "a" / "a:b" with filters "b:c" / "c" share the key SUB_a:b:c
		sub := func(f string) []rc.SubFilter { return []rc.SubFilter{{Filter: f, Options: 1}} }
		h.directed(c, "sub-key-collision/"+backend, &hist.Config{MaxQoS: 2, RetainAvailable: true}, []string{"a", "a:b", "é", "x_1"}, []hist.Op{
			{Kind: "connect", C: 0, Ver: 5, Expiry: 300, ExpirySet: true},
			{Kind: "connect", C: 1, Ver: 5, Expiry: 300, ExpirySet: true},
			{Kind: "subscribe", C: 0, Filters: sub("b:c")},
			{Kind: "subscribe", C: 1, Filters: sub("c")},
			{Kind: "disconnect", C: 0, How: "normal"},
			{Kind: "disconnect", C: 1, How: "normal"},
			{Kind: "restart"},
		})
	}
	for _, backend := range backendNames {
		c20ReplaceProbe(c, backend)
	}
	c.MinEvents["restarts"] = int64(per) * 4
	c.MinEvents["sessions_restored_checked"] = int64(per) * 4
	c.MinEvents["inflight_restored_checked"] = int64(per)
	c.MinEvents["retained_restored_checked"] = int64(per)
	_ = fmt.Sprint
}

// c20ReplaceProbe: messages that replace one another with the same payload. The history engine gives every publish a
// payload of its own (that is how deliveries are attributed), so a retained message republished unchanged but for its
// properties, QoS or expiry never occurs there. Here one client does exactly that, the broker is restarted on the same
// store and the retained messages held before and after are compared field by field.
func c20ReplaceProbe(c *vk.Ctx, backend string) {
	site, err := newStoreSite(backend)
	if err != nil {
		c.Inconclusive("C20 replace probe: " + err.Error())
		return
	}
	defer site.destroy()
	open := func() *eng.Broker {
		h, cfg := site.open()
		return eng.NewBroker(eng.Options{ExtraHooks: []eng.HookSpec{{Hook: h, Config: cfg}}})
	}
	b := open()
	d, rx := dConnect(b, 5, "rp", true, nil, nil)
	if ca := hasType(rx, rc.CONNACK); ca == nil || ca.Reason != 0 {
		c.Inconclusive("C20 replace probe: CONNECT refused")
		b.Shutdown()
		return
	}
	type step struct {
		topic   string
		qos     byte
		payload string
		props   rc.Props
	}
	up := func(k, v string) rc.Prop { return rc.Prop{ID: rc.PUserProperty, Str: k, Val: v} }
	steps := []step{
		{"r/same", 1, "same", rc.Props{{ID: rc.PContentType, Str: "first"}, {ID: rc.PMessageExpiry, Num: 1000}, up("k", "1")}},
		{"r/same", 1, "same", rc.Props{{ID: rc.PContentType, Str: "second"}, up("k", "2")}},
		{"r/qos", 0, "same", nil},
		{"r/qos", 1, "same", nil},
		{"r/exp", 1, "x", rc.Props{{ID: rc.PMessageExpiry, Num: 50}}},
		{"r/exp", 1, "x", rc.Props{{ID: rc.PMessageExpiry, Num: 5000}}},
		{"r/other", 1, "a", rc.Props{{ID: rc.PResponseTopic, Str: "re/1"}}},
		{"r/other", 1, "b", rc.Props{{ID: rc.PResponseTopic, Str: "re/2"}, {ID: rc.PCorrelationData, Bin: []byte{1, 2}}}},
		{"r/cleared", 1, "x", nil},
		{"r/cleared", 1, "", nil},
		{"r/cleared", 1, "x", rc.Props{{ID: rc.PContentType, Str: "again"}}},
	}
	for i, st := range steps {
		p := publishPkt(st.topic, st.qos, uint16(100+i), st.payload, true)
		p.Props = st.props
		d.send(p)
	}
	snap := func(b *eng.Broker) map[string]string {
		out := map[string]string{}
		for topic, pk := range b.S.Topics.Retained.GetAll() {
			if strings.HasPrefix(topic, "$SYS") {
				continue
			}
			pr := pk.Properties
			out[topic] = fmt.Sprintf("payload=%q qos=%d origin=%s created=%d expiry=%d interval=%d content_type=%q response_topic=%q correlation=%x user=%v format=%v/%v",
				pk.Payload, pk.FixedHeader.Qos, pk.Origin, pk.Created, pk.Expiry, pr.MessageExpiryInterval, pr.ContentType, pr.ResponseTopic, pr.CorrelationData, pr.User, pr.PayloadFormat, pr.PayloadFormatFlag)
		}
		return out
	}
	pre := snap(b)
	_ = b.S.Close()
	b.Shutdown()
	b2 := open()
	defer b2.Shutdown()
	if err := b2.S.VerifReadStore(); err != nil {
		c.Violate("C20/read-store-error", map[string]string{"backend": backend}, "replace probe: "+err.Error(), nil)
		return
	}
	post := snap(b2)
	for topic, a := range pre {
		c.Count("replace_probe_retained_compared", 1)
		if post[topic] != a {
			c.Violate("C20/restored-message-differs", map[string]string{"kind": "retained", "probe": "replaced-with-same-payload"},
				fmt.Sprintf("%s: retained message on %q after the restart differs from the one held before the shutdown\n  before: %s\n  after:  %s", backend, topic, a, post[topic]),
				map[string]any{"backend": backend, "topic": topic, "before": a, "after": post[topic]})
		}
	}
	for topic := range post {
		if _, ok := pre[topic]; !ok {
			c.Violate("C20/restored-message-differs", map[string]string{"kind": "retained", "probe": "replaced-with-same-payload"}, fmt.Sprintf("%s: retained message on %q exists only after the restart: %s", backend, topic, post[topic]), nil)
		}
	}
	c.Eval(vk.Hash("c20replace", backend), len(pre) >= 4)
}
