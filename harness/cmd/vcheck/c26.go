package main

import (
	"fmt"
	"strings"

	"github.com/mochi-mqtt/server/v2/packets"

	rc "verif/harness/refcodec"
	"verif/harness/vk"
)

func init() { register("C26", "exploration", checkC26) }

func validateMochi(pk *packets.Packet) bool {
	switch pk.FixedHeader.Type {
	case packets.Connect:
		return pk.ConnectValidate() == packets.CodeSuccess
	case packets.Publish:
		return pk.PublishValidate(65535) == packets.CodeSuccess
	case packets.Subscribe:
		return pk.SubscribeValidate() == packets.CodeSuccess
	case packets.Unsubscribe:
		return pk.UnsubscribeValidate() == packets.CodeSuccess
	case packets.Auth:
		return pk.AuthValidate() == packets.CodeSuccess
	}
	return true
}

func checkC26(c *vk.Ctx) {
	if err := rc.SelfTest(); err != nil {
		c.Note(err.Error())
		fmt.Println("BROKEN refcodec selftest:", err)
		c.MinEvents["selftest"] = 1
		return
	}
	nPer := c.N(700, 22000)
	c.Rule = fmt.Sprintf("(A) %d generated well-formed packet values per (type x version 3/4/5) from refcodec.GenPacket (boundary strings/binary up to 65535 bytes, multi-byte UTF-8, boundary integers/VBIs, repeated user properties, 1-3 subscription ids, every defined reason code): "+
		"mochi Encode -> remaining length == bytes that follow -> mochi Decode == value; refcodec strict Decode(mochi bytes) == value. "+
		"(B) every byte string of the decoder corpus (seeds, all truncations/tamperings, PRNG mutations) that mochi's decoder (+Validate) accepts: Decode(Encode(Decode(b))) == Decode(b). "+
		"Equivalence: absent optional property == default, empty == nil. nontrivial = distinct packet values / distinct accepted byte strings", nPer)
	c.Assumptions = []string{"refcodec (independent codec) is correct; cross-checked by its self-test vectors", "Mods: AllowResponseInfo=true, no MaxSize, problem info allowed (documented suppressions off)",
		"subscription identifier 0 (not a legal value) is treated as 'no identifier'"}

	// ---- A
	type job struct{ t, v byte }
	var jobs []job
	for t := byte(1); t <= 15; t++ {
		for _, v := range allVersions {
			if t == rc.AUTH && v != 5 {
				continue
			}
			jobs = append(jobs, job{t, v})
		}
	}
	vk.Parallel(len(jobs)*16, 0, func(ji int) {
		j := jobs[ji/16]
		shard := ji % 16
		var hs []uint64
		n := int64(0)
		for k := shard; k < nPer; k += 16 {
			r := vk.Sub(c.Seed, 26, uint64(j.t), uint64(j.v), uint64(k))
			v := rc.GenPacket(r, j.t, j.v)
			want := normalise(v)
			attrs := map[string]string{"type": rc.TypeNames[j.t], "v5": fmt.Sprint(j.v == 5)}
			pk := toMochi(v)
			wire, err := mochiEncode(pk)
			n++
			if err != nil {
				c.Violate("C26/encode-error", attrs, fmt.Sprintf("encoding %v failed: %v", v, err), map[string]any{"packet": v})
				continue
			}
			hdr, body, err := splitWire(wire)
			if err != nil {
				c.Violate("C26/remaining-length", attrs, fmt.Sprintf("%v: %v", v, err), map[string]any{"packet": v, "wire": fmt.Sprintf("% x", head(wire))})
				continue
			}
			pk2, err, _ := mochiDecode(j.v, hdr, body)
			if err != nil {
				c.Violate("C26/decode-own-output", attrs, fmt.Sprintf("decoding own encoding of %v failed: %v", v, err), map[string]any{"packet": v, "wire": fmt.Sprintf("% x", head(wire))})
				continue
			}
			if d := diffPackets(want, normalise(fromMochi(pk2))); len(d) > 0 {
				a2 := map[string]string{"type": rc.TypeNames[j.t], "v5": fmt.Sprint(j.v == 5), "field": fieldOf(d[0]), "ack_reason_lt_0x80_no_props": fmt.Sprint(isAck(j.t) && v.Reason != 0 && v.Reason < 0x80 && len(v.Props) == 0)}
				c.Violate("C26/roundtrip-mismatch", a2, fmt.Sprintf("%s v%d: %v", rc.TypeNames[j.t], j.v, d), map[string]any{"packet": v, "wire": fmt.Sprintf("% x", head(wire)), "diff": d})
			}
			rp, err := rc.DecodeBody(j.v, hdr, body, true)
			if err != nil {
				c.Violate("C26/reference-rejects-encoding", attrs, fmt.Sprintf("reference decoder rejects mochi's encoding of %v: %v", v, err), map[string]any{"packet": v, "wire": fmt.Sprintf("% x", head(wire))})
			} else if d := diffPackets(want, normalise(rp)); len(d) > 0 {
				a2 := map[string]string{"type": rc.TypeNames[j.t], "v5": fmt.Sprint(j.v == 5), "field": fieldOf(d[0]), "ack_reason_lt_0x80_no_props": fmt.Sprint(isAck(j.t) && v.Reason != 0 && v.Reason < 0x80 && len(v.Props) == 0)}
				c.Violate("C26/reference-reads-differently", a2, fmt.Sprintf("%s v%d: %v", rc.TypeNames[j.t], j.v, d), map[string]any{"packet": v, "wire": fmt.Sprintf("% x", head(wire)), "diff": d})
			}
			hs = append(hs, vk.Hash("A", j.t, j.v, k))
			if k == 0 && j.t == rc.PUBLISH && j.v == 5 {
				c.Sample(map[string]any{"value": v.String(), "wire_head": fmt.Sprintf("% x", head(wire))})
			}
		}
		c.EvalBulk(n, hs)
		c.Count("values_roundtripped", n)
	})

	// ---- B
	seeds := corpusSeeds(c.Seed, c.N(6, 12))
	var inputs []decInput
	for _, s := range seeds {
		inputs = append(inputs, s)
		systematicMutations(s, func(d decInput) { inputs = append(inputs, d) })
	}
	nrand := c.N(60000, 600000)
	rr := vk.Sub(c.Seed, 2601)
	for i := 0; i < nrand; i++ {
		inputs = append(inputs, randomMutation(rr, seeds))
	}
	vk.Parallel(16, 16, func(w int) {
		var hs []uint64
		n := int64(0)
		acc := int64(0)
		for i := w; i < len(inputs); i += 16 {
			in := inputs[i]
			n++
			pk, err, _ := mochiDecode(in.Ver, in.Hdr, in.Body)
			if err != nil || !validateMochi(&pk) {
				continue
			}
			ver := in.Ver
			if pk.FixedHeader.Type == packets.Connect {
				ver = pk.ProtocolVersion
			}
			acc++
			attrs := map[string]string{"type": rc.TypeNames[pk.FixedHeader.Type], "v5": fmt.Sprint(ver == 5)}
			w := map[string]any{"version": in.Ver, "hdr": in.Hdr, "body": fmt.Sprintf("% x", head(in.Body))}
			pk.Mods.AllowResponseInfo = true
			first := normalise(fromMochi(pk))
			// documented suppression: the encoder leaves out a Response Topic that contains wildcard characters
			// [MQTT-3.3.2-14] (properties.go, same condition as the response-information switch)
			first.Props, first.WillProps = dropWildcardResponseTopic(first.Props), dropWildcardResponseTopic(first.WillProps)
			wire, err := mochiEncode(pk)
			if err != nil {
				c.Violate("C26/accepted-not-reencodable", attrs, fmt.Sprintf("accepted input cannot be re-encoded: %v", err), w)
				continue
			}
			hdr, body, err := splitWire(wire)
			if err != nil {
				c.Violate("C26/remaining-length", attrs, err.Error(), w)
				continue
			}
			pk2, err, _ := mochiDecode(ver, hdr, body)
			if err != nil {
				c.Violate("C26/reencoded-not-decodable", attrs, fmt.Sprintf("re-encoded accepted input is rejected: %v (wire % x)", err, head(wire)), w)
				continue
			}
			if d := diffPackets(first, normalise(fromMochi(pk2))); len(d) > 0 {
				a2 := map[string]string{"type": attrs["type"], "v5": attrs["v5"], "field": fieldOf(d[0]), "ack_reason_lt_0x80_no_props": fmt.Sprint(isAck(pk.FixedHeader.Type) && pk.ReasonCode != 0 && pk.ReasonCode < 0x80 && len(first.Props) == 0)}
				c.Violate("C26/accepted-roundtrip-mismatch", a2, fmt.Sprintf("%v", d), w)
			}
			hs = append(hs, vk.Hash("B", in.Ver, in.Hdr, in.Body))
		}
		c.EvalBulk(n, hs)
		c.Count("corpus_inputs", n)
		c.Count("corpus_accepted", acc)
	})
	c.MinEvents["values_roundtripped"] = 10000
	c.MinEvents["corpus_accepted"] = 2000
}

func isAck(t byte) bool { return t >= rc.PUBACK && t <= rc.PUBCOMP }

func head(b []byte) []byte {
	if len(b) > 96 {
		return b[:96]
	}
	return b
}

func fieldOf(d string) string {
	for i := 0; i < len(d); i++ {
		if d[i] == ':' {
			return d[:i]
		}
	}
	return d
}

func dropWildcardResponseTopic(ps rc.Props) rc.Props {
	var out rc.Props
	for _, p := range ps {
		if p.ID == rc.PResponseTopic && strings.ContainsAny(p.Str, "+#") {
			continue
		}
		out = append(out, p)
	}
	return out
}
