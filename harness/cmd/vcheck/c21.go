package main

import (
	"fmt"
	"sync"
	"sync/atomic"

	mqtt "github.com/mochi-mqtt/server/v2"

	"verif/harness/hist"
	rc "verif/harness/refcodec"
	"verif/harness/vk"
)

func init() { register("C21", "fault_enumeration", checkC21) }

func crashProfile() *hist.Profile {
	p := persistProfile()
	p.Name = "crash"
	p.IDs = []string{"a", "b", "x:1"}
	p.SlotIDs = []int{0, 0, 1, 2} // id "a" on two slots: live takeovers
	p.NoSelfTakeover = false
	p.TakeoverSafe = false
	p.ConnectAllFirst = false
	p.Versions = []byte{4, 5, 5}
	p.CleanPct = 35
	p.Expiry = []uint32{0, 150, 300}
	p.Topics = []string{"c", "t/1", "é/日"}
	p.Filters = []string{"c", "t/#", "é/+", "t/1", "#"}
	p.NLPct = 0
	p.MsgExp = nil
	p.EmptyPct = 10
	p.MultiFilter = true
	p.TickDelta = []int64{200, 400}
	p.Steps = [2]int{10, 24}
	p.PubQoS = []byte{0, 1, 1, 2, 2}
	p.SubQoS = []byte{1, 2, 2}
	p.W = map[string]int{"connect": 8, "subscribe": 7, "unsubscribe": 2, "publish": 12, "disconnect": 4, "hold": 6, "ackone": 1, "tick": 2}
	return p
}

func checkC21(c *vk.Ctx) {
	c.Rule = "per backend: generated histories of 10-24 steps (3 client ids, one of them on two connections so that live takeovers occur; clean starts, session expiry 0/150/300 with expiry ticks, multi-filter subscribe/unsubscribe, retained set/clear, QoS 1/2 publishes with withheld acknowledgements) are first run to count their storage writes W, then re-executed once for EVERY k in 0..W with a crash proxy around the real storage hook that forwards the first k writes and swallows the rest " +
		"(multi-filter subscribe/unsubscribe events are split into one write per filter); the history stops at the end of the step in which write k+1 was attempted, the dying broker's remaining writes are lost, a new broker with a fresh hook loads the store. Checked: every subscription / retained message / owed in-flight message that the model held both before and after the crashing step (acknowledged before it, not removed in it) is present; clean-start connections for every id whose session had ended receive nothing when all topics are published to. nontrivial = (history, k) pairs whose crash fell inside the history (k < W) with at least one persistent item to preserve"
	c.Exhaustive = true
	c.Assumptions = []string{"crash granularity is the storage hook event (OnDisconnect's update+delete is one event), not a torn key-value write; the engines' own durability is trusted (databases are closed cleanly)",
		"the write order of one step may vary between re-executions when two handlers run concurrently (takeover); each (history, k) run is judged against its own model snapshots"}
	nh := c.N(8, 60)
	type job struct {
		backend string
		bi, hi  int
	}
	var jobs []job
	for bi, b := range backendNames {
		for hi := 0; hi <= nh; hi++ { // hi == nh: the directed history below
			jobs = append(jobs, job{b, bi, hi})
		}
	}
	p := crashProfile()
	var witnessed atomic.Int64
	var mu sync.Mutex
	totalW := 0
	vk.Parallel(len(jobs), 0, func(ji int) {
		j := jobs[ji]
		r := vk.Sub(c.Seed, 21, uint64(j.hi)) // the same histories on every backend
		cfg, ids, ops := p.Generate(r)
		for oi := range ops {
			if ops[oi].Kind == "connect" && r.Chance(35) {
				ops[oi].Hold = true // resends after a resume stay unacknowledged
			}
		}
		if j.hi == nh {
			cfg, ids, ops = c21Directed()
		}
		// pass 1: count the storage writes of the complete history
		var proxy *hist.CrashProxy
		site, err := newStoreSite(j.backend)
		if err != nil {
			c.Inconclusive("cannot open store: " + err.Error())
			return
		}
		opt := &hist.SimOptions{StoreOpen: func() (mqtt.Hook, any) { return site.open() }, WrapStore: func(h mqtt.Hook) mqtt.Hook { proxy = &hist.CrashProxy{Hook: h, Limit: -1}; return proxy }}
		res := hist.RunCase(cfg, ids, ops, false, opt)
		W := proxy.Writes()
		site.destroy()
		if res.Incon != "" {
			c.Inconclusive("C21 counting pass: " + res.Incon)
			return
		}
		mu.Lock()
		totalW += W
		mu.Unlock()
		c.Count("histories", 1)
		c.Count("storage_writes_in_histories", int64(W))
		for k := 0; k <= W; k++ {
			k := k
			h := &histRun{Prop: "C21", Profile: p, N: 1, Label: (2100+uint64(j.bi))*1000000 + uint64(j.hi)*1000 + uint64(k), Nontrivial: []string{"crash_sessions_checked"}, Rules: []string{"C21/", "C14/live-connection-not-registered"},
				Extra: map[string]any{"backend": j.backend, "crash_after_write": k, "writes_in_history": W},
				PerCase: func(i int) (*hist.SimOptions, func()) {
					st, err := newStoreSite(j.backend)
					if err != nil {
						panic(err)
					}
					var px *hist.CrashProxy
					o := &hist.SimOptions{Snapshots: true,
						StoreOpen: func() (mqtt.Hook, any) { return st.open() },
						WrapStore: func(hk mqtt.Hook) mqtt.Hook { px = &hist.CrashProxy{Hook: hk, Limit: k}; return px },
						StopWhen:  func() bool { return px != nil && px.Crashed() },
						Finish: func(s *hist.Sim) {
							s.Trace = append(s.Trace, fmt.Sprintf("storage writes attempted (the first %d reached the store): %v", k, px.Log))
							s.CrashRestart(p.Topics)
						}}
					return o, st.destroy
				}}
			h.exec(c, j.hi*1000+k, cfg, ids, ops, &witnessed)
			c.Count("crash_points", 1)
			c.Seen("crash_points_by_backend", fmt.Sprintf("%s/h%d/k%d", j.backend, j.hi, k))
		}
	})
	c.MinEvents["crash_points"] = int64(len(jobs)) * 8
	c.MinEvents["crash_subscriptions_survived"] = 20
	c.MinEvents["crash_inflight_survived"] = 5
	c.MinEvents["crash_retained_survived"] = 20
	c.MinEvents["crash_clean_start_probes"] = 20
}

// c21Directed: messages in flight towards an offline persistent session, a takeover that resumes it, withheld acknowledgements.
func c21Directed() (*hist.Config, []string, []hist.Op) {
	sub := []rc.SubFilter{{Filter: "t/#", Options: 1}, {Filter: "c", Options: 2}}
	return &hist.Config{MaxQoS: 2, RetainAvailable: true}, []string{"a", "a", "b", "x:1"}, []hist.Op{
		{Kind: "connect", C: 0, Ver: 5, Expiry: 300, ExpirySet: true},
		{Kind: "subscribe", C: 0, Filters: sub},
		{Kind: "connect", C: 2, Ver: 4, Clean: true},
		{Kind: "hold", C: 0, Hold: true},
		{Kind: "publish", C: 2, Topic: "t/1", QoS: 1},
		{Kind: "publish", C: 2, Topic: "c", QoS: 2, Retain: true},
		{Kind: "disconnect", C: 0, How: "drop"},
		{Kind: "publish", C: 2, Topic: "t/1", QoS: 1},
		{Kind: "connect", C: 1, Ver: 5, Expiry: 300, ExpirySet: true, Hold: true},
		{Kind: "publish", C: 2, Topic: "t/1", QoS: 2},
		{Kind: "connect", C: 0, Ver: 5, Expiry: 300, ExpirySet: true, Hold: true},
		{Kind: "publish", C: 2, Topic: "c", QoS: 1},
		{Kind: "disconnect", C: 0, How: "normal"},
		{Kind: "disconnect", C: 2, How: "normal"},
	}
}
