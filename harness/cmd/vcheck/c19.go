package main

import (
	"errors"
	"fmt"
	"strings"
	"sync"

	mqtt "github.com/mochi-mqtt/server/v2"
	"github.com/mochi-mqtt/server/v2/packets"

	"verif/harness/eng"
	rc "verif/harness/refcodec"
	"verif/harness/vk"
)

func init() { register("C19", "exploration", checkC19) }

// scriptHook is a test hook with a scripted behaviour per method; invocations are logged in order.
type scriptHook struct {
	mqtt.HookBase
	name    string
	publish string // pass | modify | reject | ignore | code | plain | "" (method not provided)
	read    string // pass | reject | ""
	auth    string // allow | deny | ""
	acl     string // allow | deny | ""
	log     *hookLog
}

type hookLog struct {
	mu sync.Mutex
	ev []string
}

func (l *hookLog) add(s string) { l.mu.Lock(); l.ev = append(l.ev, s); l.mu.Unlock() }
func (l *hookLog) get() []string {
	l.mu.Lock()
	defer l.mu.Unlock()
	return append([]string{}, l.ev...)
}

func (h *scriptHook) ID() string { return h.name }
func (h *scriptHook) Provides(b byte) bool {
	switch b {
	case mqtt.OnPublish:
		return h.publish != ""
	case mqtt.OnPacketRead:
		return h.read != ""
	case mqtt.OnConnectAuthenticate:
		return h.auth != ""
	case mqtt.OnACLCheck:
		return h.acl != ""
	}
	return false
}
func (h *scriptHook) OnConnectAuthenticate(cl *mqtt.Client, pk packets.Packet) bool {
	h.log.add("auth:" + h.name)
	return h.auth == "allow"
}
func (h *scriptHook) OnACLCheck(cl *mqtt.Client, topic string, write bool) bool {
	h.log.add(fmt.Sprintf("acl:%s:%s:%v", h.name, topic, write))
	return h.acl == "allow"
}
func (h *scriptHook) OnPacketRead(cl *mqtt.Client, pk packets.Packet) (packets.Packet, error) {
	if pk.FixedHeader.Type != packets.Publish || !strings.HasPrefix(string(pk.Payload), "M") {
		return pk, nil
	}
	h.log.add("read:" + h.name + ":" + string(pk.Payload))
	if h.read == "reject" {
		return pk, packets.ErrRejectPacket
	}
	switch h.read {
	case "modify":
		pk.Payload = append(append([]byte{}, pk.Payload...), []byte("|r"+h.name)...)
	case "fail":
		return pk, errors.New("read hook failed")
	case "failmod":
		// a hook that fails half way: its (partly modified) packet comes back together with the error
		pk.Payload = append(append([]byte{}, pk.Payload...), []byte("|FAILED"+h.name)...)
		return pk, errors.New("read hook failed")
	}
	return pk, nil
}
func (h *scriptHook) OnPublish(cl *mqtt.Client, pk packets.Packet) (packets.Packet, error) {
	if !strings.HasPrefix(string(pk.Payload), "M") {
		return pk, nil
	}
	h.log.add("publish:" + h.name + ":" + string(pk.Payload))
	switch h.publish {
	case "modify":
		pk.Payload = append(append([]byte{}, pk.Payload...), []byte("|"+h.name)...)
		return pk, nil
	case "reject":
		return pk, packets.ErrRejectPacket
	case "ignore":
		return pk, packets.CodeSuccessIgnore
	case "code":
		return pk, packets.ErrPayloadFormatInvalid
	case "plain":
		return pk, errors.New("plain hook error")
	}
	return pk, nil
}

func checkC19(c *vk.Ctx) {
	c.Rule = "stacks of 1-3 scripted hooks (harness types embedding mqtt.HookBase) x OnPublish behaviour {pass, modify, reject, ignore, code error, plain error} (exhaustive for stacks <=2, PRNG-sampled for 3) x protocol version 4/5 x QoS 0/1/2, retained publish to a topic with a QoS 2 subscriber: " +
		"hooks invoked in registration order; each modifying hook sees its predecessor's output (payload tags accumulate); a publish that any hook rejected/ignored/answered with an error reaches no subscriber and is not retained; OnPacketRead stacks of 1-3 hooks over {pass, modify, reject, fail (error, packet unchanged), failmod (error together with a partly modified packet)}, exhaustive, v4/v5: rejection means no processing and no later hook runs, a hook that failed contributes no modification, every hook's observed input and the delivered payload equal the chain of successful outputs; authentication and ACL stacks allow iff any hook allows. nontrivial = every distinct configuration executed"
	c.Assumptions = []string{"hooks after the first rejecting/erroring OnPublish hook are not required to run", "for rejected publishes no acknowledgement is required (statement: the publisher may receive a negative acknowledgement)"}
	beh := []string{"pass", "modify", "reject", "ignore", "code", "plain"}
	var stacks [][]string
	for _, a := range beh {
		stacks = append(stacks, []string{a})
		for _, b := range beh {
			stacks = append(stacks, []string{a, b})
		}
	}
	r := vk.Sub(c.Seed, 19)
	for i := 0; i < c.N(40, 216); i++ {
		stacks = append(stacks, []string{vk.Pick(r, beh), vk.Pick(r, beh), vk.Pick(r, beh)})
	}
	type job struct {
		stack []string
		ver   byte
		qos   byte
	}
	var jobs []job
	for _, st := range stacks {
		for _, v := range []byte{4, 5} {
			for q := byte(0); q <= 2; q++ {
				jobs = append(jobs, job{st, v, q})
			}
		}
	}
	vk.Parallel(len(jobs), 0, func(i int) {
		j := jobs[i]
		c19Publish(c, j.stack, j.ver, j.qos)
	})
	// OnPacketRead stacks
	var readStacks [][]string
	readModes := []string{"pass", "modify", "reject", "fail", "failmod"}
	for _, a := range readModes {
		readStacks = append(readStacks, []string{a})
		for _, b := range readModes {
			readStacks = append(readStacks, []string{a, b})
			for _, d := range readModes {
				readStacks = append(readStacks, []string{a, b, d})
			}
		}
	}
	vk.Parallel(len(readStacks)*2, 0, func(i int) {
		c19Read(c, readStacks[i/2], []byte{4, 5}[i%2])
	})
	// auth / acl stacks
	for _, st := range [][]string{{"allow"}, {"deny"}, {"deny", "allow"}, {"allow", "deny"}, {"deny", "deny"}, {"deny", "deny", "allow"}, {}} {
		c19Auth(c, st)
		c19ACL(c, st)
	}
	c.MinEvents["publish_configs"] = 200
}

func c19Broker(hooks []*scriptHook) *eng.Broker {
	o := eng.Options{}
	for _, h := range hooks {
		o.FirstHooks = append(o.FirstHooks, eng.HookSpec{Hook: h})
	}
	return eng.NewBroker(o)
}

func c19Publish(c *vk.Ctx, stack []string, ver, qos byte) {
	lg := &hookLog{}
	var hooks []*scriptHook
	for i, b := range stack {
		hooks = append(hooks, &scriptHook{name: fmt.Sprintf("h%d", i+1), publish: b, log: lg})
	}
	b := c19Broker(hooks)
	defer b.Shutdown()
	sub, _ := dConnect(b, 5, "sub", true, nil, nil)
	sub.send(subscribePkt(1, "t/#", 2|8))
	pub, _ := dConnect(b, ver, "pub", true, nil, nil)
	resp := pub.send(publishPkt("t/x", qos, 11, "M", true))
	if qos == 2 && hasType(resp, rc.PUBREC) != nil && hasType(resp, rc.PUBREC).Reason < 0x80 {
		resp = append(resp, pub.send(&rc.Packet{Type: rc.PUBREL, PacketID: 11})...)
	}
	got := sub.wait()
	// expected
	stopAt := -1
	want := "M"
	for i, bh := range stack {
		if bh == "modify" {
			want += fmt.Sprintf("|h%d", i+1)
		}
		if bh != "pass" && bh != "modify" {
			stopAt = i
			break
		}
	}
	attrs := map[string]string{"stack": strings.Join(stack, ","), "v5": fmt.Sprint(ver == 5), "qos": fmt.Sprint(qos)}
	if stopAt >= 0 {
		attrs["stopped_by"] = stack[stopAt]
	}
	wit := map[string]any{"stack": stack, "version": ver, "qos": qos, "hook_log": lg.get()}
	var deliveries []string
	for _, rp := range got {
		if rp.P.Type == rc.PUBLISH {
			deliveries = append(deliveries, string(rp.P.Payload))
		}
	}
	// retained store observed by a fresh subscriber
	late, _ := dConnect(b, 5, "late", true, nil, nil)
	var retained []string
	for _, rp := range late.send(subscribePkt(1, "t/#", 0)) {
		if rp.P.Type == rc.PUBLISH {
			retained = append(retained, string(rp.P.Payload))
		}
	}
	// order of invocation
	var seq []string
	for _, e := range lg.get() {
		if strings.HasPrefix(e, "publish:") {
			seq = append(seq, strings.Split(e, ":")[1])
		}
	}
	for i := range seq {
		if seq[i] != fmt.Sprintf("h%d", i+1) {
			c.Violate("C19/hook-order", attrs, fmt.Sprintf("OnPublish hooks invoked in order %v", seq), wit)
			break
		}
	}
	if stopAt < 0 {
		if len(seq) != len(stack) {
			c.Violate("C19/hook-skipped", attrs, fmt.Sprintf("only %v of %d hooks invoked", seq, len(stack)), wit)
		}
		if len(deliveries) != 1 || deliveries[0] != want {
			c.Violate("C19/modification-chain", attrs, fmt.Sprintf("subscriber received %v, expected [%s] (each hook sees its predecessor's output)", deliveries, want), wit)
		}
		if len(retained) != 1 || retained[0] != want {
			c.Violate("C19/modification-chain-retained", attrs, fmt.Sprintf("retained %v, expected [%s]", retained, want), wit)
		}
		if qos > 0 && hasType(resp, rc.PUBACK) == nil && hasType(resp, rc.PUBCOMP) == nil {
			c.Violate("C19/accepted-publish-not-acknowledged", attrs, "no acknowledgement for an accepted publish", wit)
		}
	} else {
		if len(deliveries) != 0 {
			c.Violate("C19/forwarded-after-hook-refusal", attrs, fmt.Sprintf("hook h%d answered %q but the subscriber received %v", stopAt+1, stack[stopAt], deliveries), wit)
		}
		if len(retained) != 0 {
			c.Violate("C19/retained-after-hook-refusal", attrs, fmt.Sprintf("hook h%d answered %q but the message was retained %v", stopAt+1, stack[stopAt], retained), wit)
		}
	}
	c.Eval(vk.Hash("c19pub", stack, ver, qos), true)
	c.Count("publish_configs", 1)
	if len(stack) == 2 && ver == 5 && qos == 1 && stack[0] == "modify" && stack[1] == "code" {
		c.Sample(map[string]any{"stack": stack, "version": ver, "qos": qos, "hook_log": lg.get(), "deliveries": deliveries, "retained": retained})
	}
}

func c19Read(c *vk.Ctx, stack []string, ver byte) {
	lg := &hookLog{}
	var hooks []*scriptHook
	for i, b := range stack {
		hooks = append(hooks, &scriptHook{name: fmt.Sprintf("h%d", i+1), read: b, log: lg})
	}
	b := c19Broker(hooks)
	defer b.Shutdown()
	sub, _ := dConnect(b, 5, "sub", true, nil, nil)
	sub.send(subscribePkt(1, "t/#", 1))
	pub, _ := dConnect(b, ver, "pub", true, nil, nil)
	resp := pub.send(publishPkt("t/x", 1, 11, "M", true))
	var deliveries []string
	for _, rp := range sub.wait() {
		if rp.P.Type == rc.PUBLISH {
			deliveries = append(deliveries, string(rp.P.Payload))
		}
	}
	rejected := false
	want := "M"
	var wantLog []string
	for i, bh := range stack {
		// every hook up to the rejecting one runs, and sees what the hooks before it that succeeded made of the packet;
		// a hook that returned an error other than a rejection has produced no output
		wantLog = append(wantLog, fmt.Sprintf("read:h%d:%s", i+1, want))
		if bh == "reject" {
			rejected = true
			break
		}
		if bh == "modify" {
			want += fmt.Sprintf("|rh%d", i+1)
		}
	}
	attrs := map[string]string{"read_stack": strings.Join(stack, ","), "v5": fmt.Sprint(ver == 5)}
	wit := map[string]any{"read_stack": stack, "hook_log": lg.get(), "expected_hook_log": wantLog}
	if got := lg.get(); strings.Join(got, " ") != strings.Join(wantLog, " ") {
		c.Violate("C19/read-hook-input-chain", attrs, fmt.Sprintf("read hooks saw %v, expected %v (registration order, each seeing the output of the hooks before it that succeeded)", got, wantLog), wit)
	}
	if rejected {
		if len(deliveries) > 0 || hasType(resp, rc.PUBACK) != nil {
			c.Violate("C19/processed-after-read-rejection", attrs, fmt.Sprintf("packet rejected by OnPacketRead was processed: deliveries %v, ack %v", deliveries, hasType(resp, rc.PUBACK) != nil), wit)
		}
	} else if len(deliveries) != 1 || deliveries[0] != want {
		c.Violate("C19/read-modification-chain", attrs, fmt.Sprintf("subscriber received %v, expected [%s]", deliveries, want), wit)
	}
	c.Eval(vk.Hash("c19read", stack, ver), true)
}

func c19Auth(c *vk.Ctx, stack []string) {
	lg := &hookLog{}
	o := eng.Options{NoAuthHook: true}
	for i, b := range stack {
		o.FirstHooks = append(o.FirstHooks, eng.HookSpec{Hook: &scriptHook{name: fmt.Sprintf("a%d", i+1), auth: b, log: lg}})
	}
	b := eng.NewBroker(o)
	defer b.Shutdown()
	_, r := dConnect(b, 5, "x", true, nil, nil)
	ca := hasType(r, rc.CONNACK)
	want := false
	for _, s := range stack {
		if s == "allow" {
			want = true
		}
	}
	got := ca != nil && ca.Reason == 0
	if got != want {
		c.Violate("C19/auth-any-allows", map[string]string{"auth_stack": strings.Join(stack, ",")}, fmt.Sprintf("auth stack %v: admitted=%v, expected %v", stack, got, want), map[string]any{"hook_log": lg.get()})
	}
	c.Eval(vk.Hash("c19auth", stack), true)
}

func c19ACL(c *vk.Ctx, stack []string) {
	lg := &hookLog{}
	o := eng.Options{NoACLHook: true}
	for i, b := range stack {
		o.FirstHooks = append(o.FirstHooks, eng.HookSpec{Hook: &scriptHook{name: fmt.Sprintf("l%d", i+1), acl: b, log: lg}})
	}
	b := eng.NewBroker(o)
	defer b.Shutdown()
	want := false
	for _, s := range stack {
		if s == "allow" {
			want = true
		}
	}
	d, _ := dConnect(b, 5, "x", true, nil, nil)
	r := d.send(subscribePkt(1, "t/x", 1))
	sa := hasType(r, rc.SUBACK)
	granted := sa != nil && len(sa.ReasonCodes) == 1 && sa.ReasonCodes[0] < 0x80
	if granted != want {
		c.Violate("C19/acl-any-allows", map[string]string{"acl_stack": strings.Join(stack, ","), "op": "subscribe"}, fmt.Sprintf("ACL stack %v: subscription granted=%v, expected %v", stack, granted, want), map[string]any{"hook_log": lg.get()})
	}
	r = d.send(publishPkt("t/x", 1, 5, "Z", false))
	pa := hasType(r, rc.PUBACK)
	okPub := pa != nil && pa.Reason < 0x80
	if okPub != want {
		c.Violate("C19/acl-any-allows", map[string]string{"acl_stack": strings.Join(stack, ","), "op": "publish"}, fmt.Sprintf("ACL stack %v: publish accepted=%v, expected %v", stack, okPub, want), map[string]any{"hook_log": lg.get()})
	}
	c.Eval(vk.Hash("c19acl", stack), true)
}
