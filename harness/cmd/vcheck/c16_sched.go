package main

import (
	"fmt"
	"time"

	"verif/harness/eng"
	rc "verif/harness/refcodec"
	"verif/harness/vk"
)

// c16Schedules enumerates the orders of the old connection's teardown and the new connection's
// establishment for a takeover of a client whose will has a delay (schedule points
// attach.read_returned / lwt.before_register on the old handler, inherit.existing_disconnected /
// attach.connack_sent on the new one), then lets the delay elapse in virtual time and counts will
// publications at a watcher.
func c16Schedules(c *vk.Ctx) {
	type sched struct {
		name     string
		parkOld  string // point at which the old handler is held until the new connection is established
		parkNew  string // point at which the new handler is held until the old handler has finished
		clean    bool
		wantWill int // publications expected after the delay (0: resumed, 1: session ended by clean start)
	}
	cases := []sched{
		{"old-teardown-first/resume", "", "inherit.existing_disconnected", false, 0},
		{"new-established-first@read_returned/resume", "attach.read_returned", "", false, 0},
		{"new-established-first@lwt.before_register/resume", "lwt.before_register", "", false, 0},
		{"old-teardown-first/clean", "", "inherit.existing_disconnected", true, 1},
		{"new-established-first@read_returned/clean", "attach.read_returned", "", true, 1},
	}
	for _, sc := range cases {
		b := eng.NewBroker(eng.Options{})
		ctl := b.EnableControl()
		w, _ := dConnect(b, 5, "watch", true, nil, nil)
		w.send(subscribePkt(1, "will/#", 2))
		willProps := rc.Props{{ID: rc.PWillDelay, Num: 150}}
		old, _ := dConnect(b, 5, "cx", true, rc.Props{{ID: rc.PSessionExpiry, Num: 350}}, func(p *rc.Packet) {
			p.ConnectFlags |= 4 | 1<<3
			p.WillTopic, p.WillPayload, p.WillProps = "will/x", []byte("W1"), willProps
		})
		if sc.parkOld != "" {
			ctl.ParkAt(sc.parkOld, "cx")
		}
		if sc.parkNew != "" {
			ctl.ParkAt(sc.parkNew, "cx")
		}
		nw := b.Attach()
		nw.Version = 5
		p := &rc.Packet{Type: rc.CONNECT, ProtoLevel: 5, ProtoName: "MQTT", ClientID: "cx", Props: rc.Props{{ID: rc.PSessionExpiry, Num: 350}}}
		if sc.clean {
			p.ConnectFlags |= 2
		}
		nw.Send(p, rc.FormAuto)
		ok := true
		if sc.parkNew != "" {
			ok = ctl.WaitParked(sc.parkNew, "cx", 1, 5*time.Second)
			// old handler finishes its teardown completely
			deadline := time.Now().Add(5 * time.Second)
			for !old.Done() && time.Now().Before(deadline) {
				time.Sleep(100 * time.Microsecond)
			}
			ok = ok && old.Done()
			ctl.Release(sc.parkNew, "cx")
		} else {
			ok = ctl.WaitParked(sc.parkOld, "cx", 1, 5*time.Second)
			// the new connection completes (CONNACK sent, delayed-will cancellation done, reading)
			b.Quiesce(5 * time.Second)
			ok = ok && hasType(nw.Drain(), rc.CONNACK) != nil
			ctl.Release(sc.parkOld, "cx")
		}
		b.Quiesce(5 * time.Second)
		if !ok {
			c.Inconclusive("c16 schedule " + sc.name + ": schedule point not reached")
			b.DisableControl()
			b.Shutdown()
			continue
		}
		before := 0
		for _, rp := range w.Drain() {
			if rp.P.Type == rc.PUBLISH && string(rp.P.Payload) == "W1" {
				before++
			}
		}
		// let the delay elapse
		b.S.VerifAgeState(200)
		now := time.Now().Unix()
		b.S.VerifSendDelayedLWT(now)
		b.Quiesce(5 * time.Second)
		after := 0
		for _, rp := range w.Drain() {
			if rp.P.Type == rc.PUBLISH && string(rp.P.Payload) == "W1" {
				after++
			}
		}
		total := before + after
		c.Seen("interleavings", sc.name+fmt.Sprintf("|trace=%d", len(ctl.Trace())))
		c.Count("schedule_cases", 1)
		c.Eval(vk.Hash("c16sched", sc.name), true)
		attrs := map[string]string{"schedule": sc.name, "clean_start": fmt.Sprint(sc.clean), "new_established_before_old_teardown": fmt.Sprint(sc.parkOld != "")}
		switch {
		case total > sc.wantWill && !sc.clean:
			c.Violate("C16/will-published-although-resumed", attrs, fmt.Sprintf("schedule %s: will published %d time(s) (%d before, %d after the delay) although a clean-start-0 connection resumed the session", sc.name, total, before, after),
				map[string]any{"schedule": sc.name, "points": ctl.Trace()})
		case total < sc.wantWill:
			c.Violate("C16/will-not-published", attrs, fmt.Sprintf("schedule %s: will published %d time(s), expected %d (session ended by clean start)", sc.name, total, sc.wantWill),
				map[string]any{"schedule": sc.name, "points": ctl.Trace()})
		case total > sc.wantWill:
			c.Violate("C16/will-published-twice", attrs, fmt.Sprintf("schedule %s: will published %d times", sc.name, total), map[string]any{"schedule": sc.name})
		}
		b.DisableControl()
		b.Shutdown()
	}
}
