package hist

import (
	"fmt"
	"sort"
	"strings"
	"sync/atomic"
	"time"

	mqtt "github.com/mochi-mqtt/server/v2"

	"verif/harness/eng"
	rc "verif/harness/refcodec"
	"verif/harness/refmatch"
)

// Sim executes a history step by step against a real broker and feeds the model.
type Sim struct {
	B                   *eng.Broker
	M                   *Model
	Cfg                 *Config
	Slots               []*Slot
	evIdx               int
	nmsg                int
	Trace               []string // human-readable trace of the run (ops and observed packets)
	Incon               string   // non-empty if the run became inconclusive (quiescence timeout)
	lastInflightDropped int64
	lastMsgsDropped     int64
	t0                  int64
	Opt                 SimOptions
	aliasRejected       []aliasRej
	curOp               *Op
	statsFlagged        map[string]bool
	flushIdx            int
	sentBy              map[string][]byte
	flushFlagged        map[string]bool
	inl                 *inlineState
	pendingInline       []pendingInline
	reported            map[string]map[string]int
	Store               mqtt.Hook // the storage hook of the current broker instance (if any)
	Restarts            int
	PrevSnap            *Snap // model before the step that was executed last
	CurSnap             *Snap // model after it
	StoppedAt           int
	CrashSeq            atomic.Int64 // global sequence number at which the first storage write was lost
	stepStartSeq        int64
}

type SimOptions struct {
	ClientIDs    []string // client id per slot
	KeepTrace    bool
	ExtraHooks   []eng.HookSpec
	FirstHooks   []eng.HookSpec
	NoAuthHook   bool
	AuthDeny     func(string) bool
	CheckStats   bool                      // compare $SYS counters with actual state after every step (C38)
	CheckFlush   bool                      // compare OnPacketSent bytes with bytes on the wire after every step (C34)
	StoreOpen    func() (mqtt.Hook, any)   // opens a fresh storage hook on the case's store (start and every restart)
	WrapStore    func(mqtt.Hook) mqtt.Hook // optional wrapper around the storage hook (crash proxy)
	AfterRestart func(s *Sim)              // called after a restart has loaded the store, before the history continues
	Snapshots    bool                      // keep model snapshots before/after the current step (crash-point checks)
	StopWhen     func() bool               // checked after every step: stop executing the history (crash point reached)
	Finish       func(s *Sim)              // called by RunCase after the history, before the broker is torn down
}

func NewSim(cfg *Config, opt SimOptions) *Sim {
	s := &Sim{Cfg: cfg, Opt: opt, M: NewModel(cfg)}
	s.B = s.makeBroker()
	for i, id := range opt.ClientIDs {
		s.Slots = append(s.Slots, &Slot{Idx: i, ClientID: id, nextPID: 30000})
	}
	s.t0 = time.Now().Unix()
	return s
}

// makeBroker builds a broker for this case's configuration (used at start and at every restart).
func (s *Sim) makeBroker() *eng.Broker {
	cfg, opt := s.Cfg, s.Opt
	extra := append([]eng.HookSpec{}, opt.ExtraHooks...)
	if opt.StoreOpen != nil {
		h, hc := opt.StoreOpen()
		if opt.WrapStore != nil {
			h = opt.WrapStore(h)
			if cp, ok := h.(*CrashProxy); ok {
				cp.OnCrash = func() { s.CrashSeq.Store(s.B.Seq.Next()) } // position of the crash in the global event order
			}
		}
		s.Store = h
		extra = append(extra, eng.HookSpec{Hook: h, Config: hc})
	}
	o := eng.Options{Inline: cfg.Inline, WriteBuf: cfg.WriteBuf, ExtraHooks: extra, FirstHooks: opt.FirstHooks, NoAuthHook: opt.NoAuthHook, AuthDeny: opt.AuthDeny, RecordBytes: opt.CheckFlush}
	o.Caps = func(c *mqtt.Capabilities) {
		c.MaximumQos = cfg.MaxQoS
		if cfg.RetainAvailable {
			c.RetainAvailable = 1
		} else {
			c.RetainAvailable = 0
		}
		if cfg.ServerRecvMax > 0 {
			c.ReceiveMaximum = cfg.ServerRecvMax
		}
		if cfg.MaxSessionExp > 0 {
			c.MaximumSessionExpiryInterval = cfg.MaxSessionExp
		}
		if cfg.MaxMsgExpiry < 0 {
			c.MaximumMessageExpiryInterval = 0
		} else if cfg.MaxMsgExpiry > 0 {
			c.MaximumMessageExpiryInterval = cfg.MaxMsgExpiry
		}
		if cfg.WritesPending > 0 {
			c.MaximumClientWritesPending = cfg.WritesPending
		}
		if cfg.MaxInflight > 0 {
			c.MaximumInflight = cfg.MaxInflight
		}
		if cfg.TopicAliasMax < 0 {
			c.TopicAliasMaximum = 0
		} else if cfg.TopicAliasMax > 0 {
			c.TopicAliasMaximum = uint16(cfg.TopicAliasMax)
		}
		c.Compatibilities.ObscureNotAuthorized = cfg.ObscureNotAuth
		c.MaximumPacketSize = cfg.MaxPacketSize
	}
	if cfg.Deny != nil {
		o.ACL = func(id, topic string, write bool) bool { return !cfg.Denied(id, topic, write) }
	}
	return eng.NewBroker(o)
}

func (s *Sim) Close() {
	s.B.Shutdown()
	if s.Store != nil {
		_ = s.B.S.Close() // stops the storage hook (closes the database)
	}
}

func (s *Sim) tr(format string, a ...any) {
	if s.Opt.KeepTrace {
		s.Trace = append(s.Trace, fmt.Sprintf(format, a...))
	}
}

func (s *Sim) newMsg(op *Op, from string) *Msg {
	s.nmsg++
	m := &Msg{ID: fmt.Sprintf("m%d", s.nmsg), Topic: op.Topic, QoS: op.QoS, Retain: op.Retain, Empty: op.Empty, Props: op.Props, From: from, Step: s.M.Step, PubAt: s.M.Now}
	if !op.Empty {
		m.Payload = []byte(m.ID)
		if op.Size > len(m.Payload) {
			m.Payload = append(m.Payload, []byte("|"+strings.Repeat("x", op.Size-len(m.Payload)-1))...)
		}
	}
	s.M.Msgs[m.ID] = m
	return m
}

func msgIDOf(payload []byte) string {
	p := string(payload)
	if i := strings.IndexByte(p, '|'); i >= 0 {
		p = p[:i]
	}
	return p
}

func (sl *Slot) allocPID() uint16 {
	sl.nextPID++
	if sl.nextPID < 30000 {
		sl.nextPID = 30000
	}
	return sl.nextPID
}

func (sl *Slot) expect(e *Expect) *Expect {
	sl.Exp = append(sl.Exp, e)
	return e
}

// ---------------------------------------------------------------- running

// Run executes ops; returns false if the run became inconclusive.
func (s *Sim) Run(ops []Op) bool {
	for i := range ops {
		s.M.Step = i
		if s.Opt.Snapshots {
			s.PrevSnap = s.M.Snapshot()
		}
		s.Step(&ops[i])
		if s.Incon != "" {
			return false
		}
		if s.Opt.Snapshots {
			s.CurSnap = s.M.Snapshot()
		}
		if s.Opt.StopWhen != nil && s.Opt.StopWhen() {
			s.StoppedAt = i
			return true
		}
	}
	s.StoppedAt = len(ops)
	return true
}

// Snap is the persistent part of the model at a step boundary.
type Snap struct {
	Sessions map[string]SessSnap
	Retained map[string]string // topic -> message id
}

type SessSnap struct {
	Persistent bool
	Connected  bool
	Subs       map[string]bool
	Out        map[string]bool // message ids owed (unacknowledged QoS>0)
}

func (m *Model) Snapshot() *Snap {
	sn := &Snap{Sessions: map[string]SessSnap{}, Retained: map[string]string{}}
	for id, t := range m.Sessions {
		ss := SessSnap{Persistent: t.persistent(), Connected: t.Slot != nil, Subs: map[string]bool{}, Out: map[string]bool{}}
		for f := range t.Subs {
			ss.Subs[f] = true
		}
		for _, o := range t.Out {
			ss.Out[o.M.ID] = true
		}
		sn.Sessions[id] = ss
	}
	for topic, rm := range m.Retained {
		sn.Retained[topic] = rm.ID
	}
	return sn
}

func (s *Sim) Step(op *Op) {
	s.curOp = op
	s.stepStartSeq = s.B.Seq.Now()
	s.tr("#%d %s c=%d %s", s.M.Step, op.Kind, op.C, opBrief(op))
	if op.Kind != "connect" && op.Kind != "tick" && op.C < len(s.Slots) && !s.Slots[op.C].connected && !isGlobalOp(op.Kind) {
		s.M.count("skipped_ops_not_connected")
		return
	}
	if op.Kind == "connect" && s.Slots[op.C].connected {
		// the generator believed this connection gone (armed write fault that did not fire yet): drop it first
		s.M.count("implicit_drop_before_connect")
		s.opDisconnect(&Op{Kind: "disconnect", C: op.C, How: "drop"})
		s.settle()
		s.endStep()
	}
	switch op.Kind {
	case "connect":
		s.opConnect(op)
	case "subscribe":
		s.opSubscribe(op)
	case "unsubscribe":
		s.opUnsubscribe(op)
	case "publish":
		s.opPublish(op)
	case "disconnect":
		s.opDisconnect(op)
	case "ping":
		s.opPing(op)
	case "hold":
		s.Slots[op.C].Hold = op.Hold
		if !op.Hold {
			s.releaseHeld(s.Slots[op.C])
		}
	default:
		if !s.stepExt(op) {
			panic("unknown op " + op.Kind)
		}
	}
	s.settle()
	s.endStep()
}

func opBrief(op *Op) string {
	switch op.Kind {
	case "connect":
		return fmt.Sprintf("v%d clean=%v exp=%d rm=%d", op.Ver, op.Clean, op.Expiry, op.RecvMax)
	case "subscribe", "unsubscribe":
		return fmt.Sprintf("%v id=%d", op.Filters, op.SubID)
	case "publish":
		return fmt.Sprintf("%s q%d r=%v", op.Topic, op.QoS, op.Retain)
	case "disconnect":
		return op.How
	}
	return ""
}

// settle: quiesce, drain, react (auto acknowledgements), until nothing more happens.
func (s *Sim) settle() {
	for round := 0; round < 64; round++ {
		for _, sl := range s.Slots {
			if sl.Conn != nil && len(sl.sendQ) > 0 {
				for _, b := range sl.sendQ {
					sl.Conn.SendRaw(b)
				}
				sl.sendQ = nil
			}
		}
		if !s.B.Quiesce(20 * time.Second) {
			s.Incon = fmt.Sprintf("quiescence timeout at step %d", s.M.Step)
			return
		}
		s.processHookEvents()
		progress := false
		// process packets in global arrival order across connections
		type item struct {
			sl *Slot
			rp *eng.RxPacket
		}
		var items []item
		for _, sl := range s.Slots {
			if sl.Conn == nil {
				continue
			}
			for _, rp := range sl.Conn.Drain() {
				items = append(items, item{sl, rp})
			}
			if sl.Conn.DecErr != nil && !sl.lastDiscSeen {
				s.M.flag("C23/undecodable-output", map[string]string{"v5": fmt.Sprint(sl.Ver == 5)}, "slot %d (%s): broker output not decodable by the strict reference decoder: %v", sl.Idx, sl.ClientID, sl.Conn.DecErr)
				sl.lastDiscSeen = true
			}
		}
		sort.SliceStable(items, func(i, j int) bool { return items[i].rp.Seq < items[j].rp.Seq })
		for _, it := range items {
			progress = true
			s.onBrokerPacket(it.sl, it.rp)
		}
		pending := false
		for _, sl := range s.Slots {
			if sl.Conn != nil && len(sl.sendQ) > 0 {
				pending = true
			}
		}
		if !progress && !pending {
			break
		}
	}
	// connection closures
	for _, sl := range s.Slots {
		if sl.Conn == nil || !sl.connected {
			continue
		}
		if closed, _ := sl.Conn.MC.BrokerClosed(); closed || sl.Conn.Done() {
			s.onBrokerClosed(sl)
		}
	}
}

func (s *Sim) processHookEvents() {
	evs, n := s.B.EventsSince(s.evIdx)
	s.evIdx = n
	for _, e := range evs {
		switch e.Hook {
		case "OnPublishDropped":
			s.M.count("reported_drops")
			id := msgIDOf([]byte(e.Payload))
			for _, sl := range s.Slots {
				if sl.ClientID != e.Client {
					continue
				}
				for _, x := range sl.Exp {
					if !x.Done && x.Kind == rc.PUBLISH && x.Msg != nil && x.Msg.ID == id {
						x.Done = true
						if x.Out != nil && sl.Sess != nil {
							sl.Sess.removeOut(x.Out)
						}
						break
					}
				}
			}
		case "OnPacketIDExhausted":
			s.M.dropsAllowed++
		}
	}
	info := s.B.S.Info.Clone()
	if d := info.InflightDropped - s.lastInflightDropped; d > 0 {
		s.M.dropsAllowed += int(d)
		s.lastInflightDropped = info.InflightDropped
	}
}

// noteStale: the session is being discarded; on a session that has had messages held back, every message that went out
// may have lost its in-memory record already (recorded deferred-release defect), in which case discarding the session
// does not remove its store record.
func (ss *Session) noteStale() {
	if !ss.Taint["deferred"] {
		return
	}
	if ss.StaleDeferred == nil {
		ss.StaleDeferred = map[string]bool{}
	}
	for _, o := range ss.Out {
		if o.Sent {
			ss.StaleDeferred[o.M.ID] = true
		}
	}
}

func (ss *Session) noteOwed(id string) {
	if ss.EverOwed == nil {
		ss.EverOwed = map[string]bool{}
	}
	ss.EverOwed[id] = true
}

func (ss *Session) removeOut(o *OutMsg) {
	for i, x := range ss.Out {
		if x == o {
			if ss.Taint["deferred"] && o.Sent {
				if ss.StaleDeferred == nil {
					ss.StaleDeferred = map[string]bool{}
				}
				ss.StaleDeferred[o.M.ID] = true
			}
			ss.Out = append(ss.Out[:i], ss.Out[i+1:]...)
			return
		}
	}
}

// endStep: every mandatory expectation of this step must be met.
func (s *Sim) endStep() {
	m := s.M
	for _, g := range m.groups {
		if g.Got > 1 {
			m.flag("C06/multiple-members", map[string]string{"group": "shared"}, "message %s (%s) reached %d members of share group %s", g.Msg.ID, g.Msg.Topic, g.Got, g.Key)
		} else if g.Got == 0 && g.AmbGot == 0 && g.Busy == 0 && g.Observ && len(g.Free) > 0 {
			m.flag("C06/no-member", map[string]string{"group": "shared"}, "message %s (%s) reached no member of share group %s (%d connected members)", g.Msg.ID, g.Msg.Topic, g.Key, len(g.Free))
		}
		if g.Got == 1 && g.AmbGot == 0 {
			m.count("shared_exactly_one")
		}
	}
	m.groups = nil
	for _, sl := range s.Slots {
		keep := sl.Exp[:0]
		for _, e := range sl.Exp {
			if e.Done {
				continue
			}
			if e.Group != nil {
				continue // resolved above
			}
			if sl.stalled && sl.connected {
				keep = append(keep, e) // nothing can arrive while the connection refuses writes: still owed
				continue
			}
			if e.Optional {
				if e.Out != nil && (e.Out.Deferred || sl.Hold) {
					keep = append(keep, e) // still owed later
				}
				continue
			}
			if e.Kind == rc.PUBLISH && e.Out != nil && e.Out.M.QoS > 0 && m.dropsAllowed > 0 && e.Out.Vars != nil && e.Out.Vars[0].QoS > 0 {
				m.dropsAllowed--
				if sl.Sess != nil {
					sl.Sess.removeOut(e.Out)
				}
				continue
			}
			if !sl.connected && e.Kind != rc.DISCONNECT {
				// the connection ended before the reaction was due; QoS>0 messages stay owed to the session
				continue
			}
			attrs := map[string]string{"kind": rc.TypeNames[e.Kind], "v5": fmt.Sprint(sl.Ver == 5)}
			for k, v := range e.Attrs {
				attrs[k] = v
			}
			if sl.Sess != nil {
				for t := range sl.Sess.Taint {
					attrs["taint_"+t] = "true"
				}
			}
			if e.Msg != nil && e.Msg.IsWill {
				attrs["will_why"] = e.Msg.WillWhy
				attrs["will_erased_risk"] = fmt.Sprint(e.Msg.WillErasedRisk)
			}
			m.flag(e.Rule, attrs, "slot %d (%s): expected %s not received by quiescence: %s", sl.Idx, sl.ClientID, rc.TypeNames[e.Kind], e.What)
			if e.Attrs["nolocal_overlap_disagree"] == "true" && e.Out != nil && sl.Sess != nil {
				sl.Sess.removeOut(e.Out) // flagged once (recorded finding); the broker did not queue it, so nothing is owed later
			}
			if e.Kind == rc.PUBLISH && e.Out != nil && !e.Out.Sent && sl.RecvMax > 0 && sl.Sess != nil && sl.Sess.Taint["deferred"] && e.Out.Vars != nil && e.Out.Vars[0].QoS > 0 {
				// flagged once; on a session whose send quota has leaked (recorded findings) the broker holds the
				// message back although the model reckons there is room: it stays owed and counts as held back
				e.Out.Deferred, e.Out.WasDeferred, e.Optional = true, true, true
				keep = append(keep, e)
				m.count("missing_delivery_on_leaky_quota_kept_as_held_back")
			}
		}
		sl.Exp = keep
	}
	m.dropsAllowed = 0
	s.progressCheck()
	s.aliasRejectionCheck()
	s.statsCheck()
	s.flushCheck()
	s.inlineCheck()
}

func (s *Sim) onBrokerClosed(sl *Slot) {
	sl.connected = false
	s.tr("   <- slot %d closed by broker", sl.Idx)
	if !sl.ExpectClose {
		// an unexpected close is not by itself a violation (C07 allows "closes the connection"),
		// but the model must follow: the connection ended without normal DISCONNECT.
		s.connectionEnded(sl, "broker-close", true)
	} else {
		// the operation allowed the broker to close (e.g. a refused alias): if it did, the connection has ended
		// abnormally (no-op when the operation already modelled the end)
		s.connectionEndedModel(sl, "broker-close-allowed", false)
	}
	sl.ExpectClose = false
}

// ---------------------------------------------------------------- broker -> client packets

func (s *Sim) onBrokerPacket(sl *Slot, rp *eng.RxPacket) {
	p := rp.P
	m := s.M
	sl.rxCount++
	s.tr("   <- slot %d %s", sl.Idx, p.String())
	m.count("rx_" + rc.TypeNames[p.Type])
	if sl.rxCount == 1 && p.Type != rc.CONNACK {
		m.flag("C13/first-packet-not-connack", map[string]string{"type": rc.TypeNames[p.Type]}, "slot %d (%s): first packet from the broker is %s", sl.Idx, sl.ClientID, p.String())
	}
	if sl.lastDiscSeen {
		m.flag("C23/packet-after-disconnect", map[string]string{"type": rc.TypeNames[p.Type]}, "slot %d (%s): %s after DISCONNECT", sl.Idx, sl.ClientID, p.String())
	}
	if sl.MPS > 0 && uint32(len(rp.Raw)) > sl.MPS {
		m.flag("C23/exceeds-maximum-packet-size", nil, "slot %d: packet of %d bytes exceeds client's Maximum Packet Size %d: %s", sl.Idx, len(rp.Raw), sl.MPS, p.String())
	}
	if sl.Ver < 5 && (p.Type == rc.DISCONNECT || p.Type == rc.AUTH) {
		m.flag("C23/v3-forbidden-packet-type", map[string]string{"type": rc.TypeNames[p.Type], "server_initiated_close": "true"}, "slot %d (%s, MQTT %d): received %s", sl.Idx, sl.ClientID, sl.Ver, p.String())
	}
	if sl.RPI0 && p.Type != rc.PUBLISH && p.Type != rc.CONNACK && p.Type != rc.DISCONNECT {
		if p.Props.Has(rc.PReasonString) || p.Props.Has(rc.PUserProperty) {
			m.flag("C23/problem-info-not-allowed", map[string]string{"type": rc.TypeNames[p.Type]}, "slot %d: %s carries Reason String/User Property although Request Problem Information was 0", sl.Idx, p.String())
		}
	}
	switch p.Type {
	case rc.PUBLISH:
		s.onBrokerPublish(sl, rp)
		return
	case rc.DISCONNECT:
		sl.lastDiscSeen = true
		for _, e := range sl.Exp {
			if !e.Done && e.Kind == rc.DISCONNECT {
				e.Done = true
				if e.ReasonOK != nil && sl.Ver == 5 && !e.ReasonOK(p.Reason) {
					m.flag(e.Rule, map[string]string{"reason": fmt.Sprintf("0x%02x", p.Reason)}, "slot %d: DISCONNECT reason 0x%02x: %s", sl.Idx, p.Reason, e.What)
				}
				return
			}
		}
		// unsolicited DISCONNECT: the broker is ending the connection (protocol error paths)
		m.count("unsolicited_disconnect")
		if p.Reason == 0x93 {
			m.flag("C11/receive-maximum-exceeded-disconnect", sl.taintAttrs(), "slot %d (%s): DISCONNECT 0x93 although the client kept its unacknowledged publishes within the advertised Receive Maximum", sl.Idx, sl.ClientID)
		}
		return
	case rc.PUBREL:
		// completes broker-outbound QoS 2 after our PUBREC
		o := sl.inflight[p.PacketID]
		matched := false
		for _, e := range sl.Exp {
			if !e.Done && e.Kind == rc.PUBREL && (e.PID == p.PacketID) {
				e.Done = true
				matched = true
				break
			}
		}
		if !matched && (o == nil || !o.Pubrec) {
			if sl.otherQ2[p.PacketID] || (sl.Sess != nil && sl.Sess.OtherQ2[p.PacketID]) {
				// release of an untracked (empty payload / $SYS) QoS 2 delivery we acknowledged, possibly on an earlier connection
			} else if p.Reason < 0x80 {
				m.flag("C09/unexpected-pubrel", sl.taintAttrs(), "slot %d: PUBREL id %d without a PUBREC'd outbound message", sl.Idx, p.PacketID)
			}
		}
		if sl.Hold {
			sl.heldAcks = append(sl.heldAcks, &rc.Packet{Type: rc.PUBCOMP, Version: sl.Ver, PacketID: p.PacketID})
		} else {
			s.clientAck(sl, rc.PUBCOMP, p.PacketID)
		}
		return
	}
	// responses to client requests: match by kind (+pid)
	for _, e := range sl.Exp {
		if e.Done || e.Kind != p.Type {
			continue
		}
		if e.PID != 0 && e.PID != p.PacketID && p.Type != rc.CONNACK && p.Type != rc.PINGRESP {
			continue
		}
		e.Done = true
		s.checkResponse(sl, e, p)
		return
	}
	if p.Type == rc.CONNACK {
		m.flag("C13/second-connack", nil, "slot %d: unexpected CONNACK %s", sl.Idx, p.String())
		return
	}
	m.flag("C07/unsolicited-response", map[string]string{"kind": rc.TypeNames[p.Type]}, "slot %d (%s): %s matches no outstanding request", sl.Idx, sl.ClientID, p.String())
}

func (sl *Slot) taintAttrs() map[string]string {
	a := map[string]string{"v5": fmt.Sprint(sl.Ver == 5)}
	if sl.Sess != nil {
		for t := range sl.Sess.Taint {
			a["taint_"+t] = "true"
		}
	}
	return a
}

func (s *Sim) checkResponse(sl *Slot, e *Expect, p *rc.Packet) {
	m := s.M
	switch p.Type {
	case rc.CONNACK:
		sl.sawConnack = true
		if e.ReasonOK != nil && !e.ReasonOK(p.Reason) {
			m.flag(e.Rule, map[string]string{"reason": fmt.Sprintf("0x%02x", p.Reason), "v5": fmt.Sprint(sl.Ver == 5)}, "slot %d (%s): CONNACK reason 0x%02x: %s", sl.Idx, sl.ClientID, p.Reason, e.What)
		}
		if e.SP >= 0 && p.Reason == 0 && (p.SessionPresent != (e.SP == 1)) {
			m.flag("C14/session-present", sl.taintAttrs(), "slot %d (%s): CONNACK session present=%v, model says %v (%s)", sl.Idx, sl.ClientID, p.SessionPresent, e.SP == 1, e.What)
		}
		if p.Reason == 0 {
			m.count("connack_ok")
		}
	case rc.SUBACK, rc.UNSUBACK:
		if sl.Ver < 5 && p.Type == rc.UNSUBACK {
			return
		}
		if len(p.ReasonCodes) != len(e.Codes) {
			m.flag("C07/reason-code-count", map[string]string{"kind": rc.TypeNames[p.Type]}, "slot %d: %s has %d reason codes for %d filters", sl.Idx, rc.TypeNames[p.Type], len(p.ReasonCodes), len(e.Codes))
			return
		}
		for i, c := range p.ReasonCodes {
			if !e.Codes[i](c) {
				rule := e.Rule
				m.flag(rule, map[string]string{"kind": rc.TypeNames[p.Type], "code": fmt.Sprintf("0x%02x", c), "v5": fmt.Sprint(sl.Ver == 5)}, "slot %d (%s): %s code[%d]=0x%02x not acceptable: %s", sl.Idx, sl.ClientID, rc.TypeNames[p.Type], i, c, e.What)
			}
		}
	case rc.PUBACK, rc.PUBREC, rc.PUBCOMP:
		if e.ReasonOK != nil && !e.ReasonOK(p.Reason) {
			m.flag(e.Rule, map[string]string{"kind": rc.TypeNames[p.Type], "reason": fmt.Sprintf("0x%02x", p.Reason)}, "slot %d (%s): %s id %d reason 0x%02x: %s", sl.Idx, sl.ClientID, rc.TypeNames[p.Type], p.PacketID, p.Reason, e.What)
		}
		if p.Type == rc.PUBREC && sl.ownQ2[p.PacketID] && p.Reason < 0x80 {
			// complete our own QoS 2 publish
			if sl.Sess != nil && (len(sl.inflight) > 0 || len(sl.Sess.Out) > 0) {
				sl.Sess.Taint["own_qos2_released_while_outbound_unacked"] = true
			}
			s.clientSend(sl, &rc.Packet{Type: rc.PUBREL, Version: sl.Ver, PacketID: p.PacketID})
			sl.expect(&Expect{Kind: rc.PUBCOMP, PID: p.PacketID, Rule: "C07/no-response", What: "PUBCOMP for PUBREL", Step: m.Step, SP: -1})
			if sl.Sess != nil {
				delete(sl.Sess.InQ2, p.PacketID)
			}
			delete(sl.ownQ2, p.PacketID)
		}
	}
}

func (s *Sim) clientSend(sl *Slot, p *rc.Packet) {
	s.tr("   -> slot %d %s", sl.Idx, p.String())
	sl.sendQ = append(sl.sendQ, rc.Encode(p, rc.FormAuto))
}

// clientAck sends an acknowledgement for a broker-outbound message and updates the model.
func (s *Sim) clientAck(sl *Slot, kind byte, pid uint16) {
	s.clientSend(sl, &rc.Packet{Type: kind, Version: sl.Ver, PacketID: pid})
	o := sl.inflight[pid]
	switch kind {
	case rc.PUBACK, rc.PUBCOMP:
		if o != nil {
			delete(sl.inflight, pid)
			if sl.Sess != nil {
				sl.Sess.removeOut(o)
			}
		}
	case rc.PUBREC:
		if o != nil {
			if !o.Pubrec {
				o.PubrecAt = s.M.Now
			}
			o.Pubrec = true
			sl.expect(&Expect{Kind: rc.PUBREL, PID: pid, Rule: "C07/no-response", What: fmt.Sprintf("PUBREL for PUBREC of %s", o.M.ID), Attrs: map[string]string{"dir": "outbound-qos2"}, Step: s.M.Step, SP: -1})
		}
	}
}

func (s *Sim) releaseHeld(sl *Slot) {
	for _, p := range sl.heldAcks {
		if sl.connected {
			s.clientAck(sl, p.Type, p.PacketID)
		}
	}
	sl.heldAcks = nil
}

func (s *Sim) onBrokerPublish(sl *Slot, rp *eng.RxPacket) {
	p := rp.P
	m := s.M
	// ---- topic / alias resolution (C24 outbound)
	topic := p.Topic
	if strings.ContainsAny(topic, "+#") {
		m.flag("C23/wildcard-in-publish-topic", nil, "slot %d: PUBLISH topic %q contains a wildcard", sl.Idx, topic)
	}
	if ap, ok := p.Props.Get(rc.PTopicAlias); ok {
		a := uint16(ap.Num)
		m.count("outbound_alias_seen")
		if sl.TAM == 0 || a > sl.TAM {
			m.flag("C24/alias-out-of-range", map[string]string{"tam": fmt.Sprint(sl.TAM)}, "slot %d: PUBLISH uses topic alias %d but the client's Topic Alias Maximum is %d", sl.Idx, a, sl.TAM)
		}
		if topic != "" {
			sl.aliasOut[a] = topic
		} else if t, ok := sl.aliasOut[a]; ok {
			topic = t
		} else {
			ua := sl.taintAttrs()
			ua["mps_limited"] = fmt.Sprint(sl.MPS > 0)
			ua["recv_max_limited"] = fmt.Sprint(sl.RecvMax > 0)
			m.flag("C24/unbound-alias", ua, "slot %d: PUBLISH with empty topic uses alias %d that no earlier PUBLISH on this connection bound", sl.Idx, a)
		}
	} else if topic == "" {
		m.flag("C24/empty-topic-no-alias", nil, "slot %d: PUBLISH with empty topic and no alias", sl.Idx)
	}
	id := msgIDOf(p.Payload)
	msg := m.Msgs[id]
	if msg == nil {
		if len(p.Payload) == 0 || strings.HasPrefix(p.Topic, "$SYS") || strings.HasPrefix(topic, "$SYS") {
			s.onOtherPublish(sl, rp, topic)
			return
		}
		m.flag("C03/unknown-payload", nil, "slot %d: PUBLISH with payload %q that no client published", sl.Idx, trunc(p.Payload))
		return
	}
	m.count("publish_delivered")
	if msg.IsWill {
		// the owner's connection may have been ended by the broker in this very round: let the model catch up first
		for _, o := range s.Slots {
			if o.connected && o.ClientID == msg.From && o.Sess != nil && o.Sess.WillSlot != nil && o.Sess.WillSlot.Payload == msg.ID {
				if closed, _ := o.Conn.MC.BrokerClosed(); closed || o.Conn.Done() {
					s.onBrokerClosed(o)
				}
			}
		}
	}
	// ---- find the expectation
	var exp *Expect
	for pass := 0; pass < 3 && exp == nil; pass++ {
		for _, e := range sl.Exp {
			if e.Done || e.Kind != rc.PUBLISH || e.Msg != msg {
				continue
			}
			isGroup := e.Group != nil
			if (pass == 0 && !isGroup && !e.Optional) || (pass == 1 && !isGroup) || pass == 2 {
				exp = e
				break
			}
		}
	}
	if exp == nil {
		dup := false
		if p.QoS > 0 {
			if o := sl.inflight[p.PacketID]; o != nil && o.M == msg && p.Dup {
				dup = true // a DUP retransmission inside one connection is tolerated (not required)
			}
		}
		if dup {
			m.count("dup_retransmission")
			return
		}
		attrs := sl.taintAttrs()
		attrs["retained"] = fmt.Sprint(p.Retain)
		if sl.Sess != nil {
			plain, shared := sl.Sess.matching(msg.Topic)
			attrs["has_matching_sub"] = fmt.Sprint(len(plain)+len(shared) > 0)
			attrs["shared"] = fmt.Sprint(len(shared) > 0)
		}
		if msg.IsWill && (!s.deliveredBefore(sl, msg) || m.WillDisp[msg.ID] != "published") {
			attrs["disposition"] = m.WillDisp[msg.ID]
			if attrs["disposition"] == "" {
				attrs["disposition"] = "connection-still-open"
			}
			if attrs["disposition"] == "published" {
				attrs["late"] = fmt.Sprint(msg.Step < m.Step)
				attrs["will_why"] = msg.WillWhy
			}
			// a delayed will that fires while a newer connection holds the same client id erases that connection's will
			if t := m.Sessions[msg.From]; t != nil && t.WillSlot != nil && t.WillSlot.Payload != msg.ID {
				if wm := m.Msgs[t.WillSlot.Payload]; wm != nil {
					wm.WillErasedRisk = true
				}
			}
			m.flag("C16/will-published-not-due", attrs, "slot %d (%s): received will %s of %s on %q although the model says: %s", sl.Idx, sl.ClientID, msg.ID, msg.From, msg.Topic, attrs["disposition"])
		} else if msg.ExpAt > 0 && m.ext().lastSweep > msg.ExpAt && !s.deliveredBefore(sl, msg) {
			attrs["was_deferred"] = fmt.Sprint(sl.Sess != nil && sl.Sess.Taint["deferred"])
			attrs["resend"] = fmt.Sprint(p.Dup)
			m.flag("C25/expired-message-delivered", attrs, "slot %d (%s): first transmission of %s on %q although housekeeping ran at virtual time %d, after its expiry at %d (published %d, interval %d)", sl.Idx, sl.ClientID, msg.ID, msg.Topic, m.ext().lastSweep, msg.ExpAt, msg.PubAt, msg.ExpAt-msg.PubAt)
		} else if s.deliveredBefore(sl, msg) {
			m.flag("C03/duplicate-delivery", attrs, "slot %d (%s): second copy of %s (%s)", sl.Idx, sl.ClientID, msg.ID, msg.Topic)
		} else {
			m.flag("C03/unentitled-delivery", attrs, "slot %d (%s): received %s on %q (from %s) without being entitled", sl.Idx, sl.ClientID, msg.ID, msg.Topic, msg.From)
		}
		if p.QoS == 1 {
			s.clientSend(sl, &rc.Packet{Type: rc.PUBACK, Version: sl.Ver, PacketID: p.PacketID})
		} else if p.QoS == 2 {
			s.clientSend(sl, &rc.Packet{Type: rc.PUBREC, Version: sl.Ver, PacketID: p.PacketID})
		}
		return
	}
	exp.Done = true
	sl.markDelivered(msg)
	// one copy satisfies every group expectation of this client for this message
	ngroups := 0
	for _, e := range sl.Exp {
		if e.Kind == rc.PUBLISH && e.Msg == msg && e.Group != nil {
			ngroups++
		}
	}
	for _, e := range sl.Exp {
		if e.Kind == rc.PUBLISH && e.Msg == msg && e.Group != nil {
			if !e.Done || e == exp {
				if ngroups == 1 {
					e.Group.Got++
				} else {
					e.Group.AmbGot++ // member of several matching groups: which group selected it is not observable
				}
			}
			e.Done = true
		}
	}
	attrs := sl.taintAttrs()
	// ---- C12 order: an earlier owed message of the same publisher/topic must not be overtaken
	// first transmissions per session: a message published later by the same client on the same
	// topic and delivered at the same QoS must not have had its first transmission earlier.
	if sl.Sess != nil && exp.Group == nil && !msg.IsWill && !(exp.Out != nil && exp.Out.Retained) {
		if sl.Sess.FirstTx == nil {
			sl.Sess.FirstTx = map[string]*txRec{}
		}
		if _, seen := sl.Sess.FirstTx[msg.ID]; !seen {
			for _, y := range sl.Sess.FirstTx {
				if y.From == msg.From && y.Topic == msg.Topic && y.QoS == p.QoS && y.No > msgNo(msg) {
					a := sl.taintAttrs()
					a["first_tx_is_resend"] = fmt.Sprint(p.Dup)
					a["was_deferred"] = fmt.Sprint(exp.Out != nil && exp.Out.WasDeferred)
					m.flag("C12/out-of-order", a, "slot %d (%s): first transmission of %s arrives after that of %s, which the same client (%s) published later on %s (both delivered at QoS %d)", sl.Idx, sl.ClientID, msg.ID, y.ID, msg.From, msg.Topic, p.QoS)
					break
				}
			}
			sl.Sess.FirstTx[msg.ID] = &txRec{ID: msg.ID, From: msg.From, Topic: msg.Topic, QoS: p.QoS, No: msgNo(msg), Seq: rp.Seq}
			m.count("first_transmissions")
		}
	}
	// ---- field checks
	if topic != msg.Topic && topic != "" {
		m.flag("C03/topic-changed", attrs, "slot %d: %s delivered on %q, published on %q", sl.Idx, msg.ID, topic, msg.Topic)
	}
	okq := false
	for _, v := range exp.Vars {
		if v.QoS == p.QoS {
			okq = true
		}
	}
	if !okq {
		a := sl.taintAttrs()
		a["retained_delivery"] = fmt.Sprint(exp.Out != nil && exp.Out.Retained || exp.Retain != nil && len(exp.Retain) == 1 && exp.Retain[0] && msg.Retain)
		m.flag("C04/delivered-qos", a, "slot %d (%s): %s delivered at QoS %d, acceptable %v (published QoS %d, server max %d)", sl.Idx, sl.ClientID, msg.ID, p.QoS, varQoS(exp.Vars), msg.QoS, m.maxQoS())
	}
	okr := false
	for _, r := range exp.Retain {
		if r == p.Retain {
			okr = true
		}
	}
	if !okr {
		m.flag("C04/retain-flag", attrs, "slot %d (%s, v%d): %s delivered with retain=%v, acceptable %v", sl.Idx, sl.ClientID, sl.Ver, msg.ID, p.Retain, exp.Retain)
	}
	if sl.Ver == 5 {
		var got []int
		for _, sp := range p.Props.All(rc.PSubscriptionID) {
			got = append(got, int(sp.Num))
		}
		sort.Ints(got)
		oki := false
		for _, v := range exp.Vars {
			if eqInts(v.SubIDs, got) {
				oki = true
			}
		}
		if !oki {
			a := sl.taintAttrs()
			a["retained_delivery"] = fmt.Sprint(exp.Out != nil && exp.Out.Retained)
			m.flag("C04/subscription-identifiers", a, "slot %d (%s): %s carries subscription identifiers %v, acceptable %v", sl.Idx, sl.ClientID, msg.ID, got, varIDs(exp.Vars))
		}
		if !propsEqual(appProps(p.Props), appProps(msg.Props)) {
			a := sl.taintAttrs()
			a["rpi0"] = fmt.Sprint(sl.RPI0)
			m.flag("C03/properties-changed", a, "slot %d: %s delivered with properties %v, published with %v", sl.Idx, msg.ID, appProps(p.Props), appProps(msg.Props))
		}
		s.checkMsgExpiry(sl, msg, p, exp)
	}
	if !strings.HasPrefix(string(p.Payload), msg.ID) || len(p.Payload) != len(msg.Payload) {
		m.flag("C03/payload-changed", attrs, "slot %d: payload of %s changed (len %d vs %d)", sl.Idx, msg.ID, len(p.Payload), len(msg.Payload))
	}
	if exp.Dup == 0 && p.Dup {
		m.flag("C09/dup-on-first-transmission", attrs, "slot %d: first transmission of %s has DUP=1", sl.Idx, msg.ID)
	} else if exp.Dup == 1 && !p.Dup {
		m.flag("C09/resend-without-dup", attrs, "slot %d: redelivery of %s without DUP", sl.Idx, msg.ID)
	}
	// ---- QoS > 0 bookkeeping
	if p.QoS > 0 {
		o := exp.Out
		if o == nil {
			o = &OutMsg{M: msg}
		}
		if exp.PID != 0 && exp.PID != p.PacketID {
			m.flag("C09/resend-different-packet-id", attrs, "slot %d: %s redelivered with packet id %d, originally %d", sl.Idx, msg.ID, p.PacketID, exp.PID)
		}
		if p.PacketID > sl.maxOutPID && exp.Dup != 1 {
			sl.maxOutPID = p.PacketID
		}
		if sl.Sess != nil && sl.Sess.InQ2[p.PacketID] != nil {
			// legal by itself (the two directions have independent id spaces) - but from here on a mix-up of the two
			// exchanges would be the broker's doing, not the client's
			sl.Sess.Taint["outbound_id_equals_inbound_qos2_in_progress"] = true
			m.count("outbound_id_equals_inbound_qos2_in_progress")
		}
		if other := sl.inflight[p.PacketID]; other != nil && other != o {
			m.flag("C10/packet-id-in-use", attrs, "slot %d: packet id %d assigned to %s while %s still uses it", sl.Idx, p.PacketID, msg.ID, other.M.ID)
		}
		if strings.HasPrefix(exp.Rule, "C09/not-resent") {
			sl.resumePIDs[p.PacketID] = true
		}
		if !o.Sent || exp.Dup != 1 {
			// first transmission on this connection counts against Receive Maximum
			if sl.RecvMax > 0 && len(sl.inflight)+1 > int(sl.RecvMax) && sl.inflight[p.PacketID] == nil && exp.Dup != 1 {
				// is anything that the broker (re)sent right after the CONNACK of a resumed session still unacknowledged?
				resume := sl.resumePIDs[p.PacketID]
				for id := range sl.inflight {
					resume = resume || sl.resumePIDs[id]
				}
				attrs["resume_burst_unacknowledged"] = fmt.Sprint(resume)
				m.flag("C11/receive-maximum-exceeded", attrs, "slot %d (%s): %d unacknowledged QoS>0 PUBLISH in transit exceeds client's Receive Maximum %d", sl.Idx, sl.ClientID, len(sl.inflight)+1, sl.RecvMax)
			}
		}
		o.Sent = true
		o.Deferred = false
		o.PID = p.PacketID
		// a redelivery must look like the first transmission: same QoS and, on an MQTT 5 connection, the same subscription identifiers
		nv := variant{QoS: p.QoS}
		if sl.Ver == 5 {
			for _, sp := range p.Props.All(rc.PSubscriptionID) {
				nv.SubIDs = append(nv.SubIDs, int(sp.Num))
			}
			sort.Ints(nv.SubIDs)
		} else if len(o.Vars) > 0 {
			nv.SubIDs = o.Vars[0].SubIDs // not visible on this connection: keep what the model expects
		}
		o.Vars = []variant{nv}
		sl.inflight[p.PacketID] = o
		if sl.Hold {
			k := byte(rc.PUBACK)
			if p.QoS == 2 {
				k = rc.PUBREC
			}
			sl.heldAcks = append(sl.heldAcks, &rc.Packet{Type: k, Version: sl.Ver, PacketID: p.PacketID})
		} else if p.QoS == 1 {
			s.clientAck(sl, rc.PUBACK, p.PacketID)
		} else {
			s.clientAck(sl, rc.PUBREC, p.PacketID)
		}
	} else if exp.Out != nil && sl.Sess != nil {
		sl.Sess.removeOut(exp.Out)
	}
}

func sameQoS(a, b *Expect) bool {
	if len(a.Vars) == 0 || len(b.Vars) == 0 {
		return false
	}
	return len(a.Vars) == 1 && len(b.Vars) == 1 && a.Vars[0].QoS == b.Vars[0].QoS
}

func varQoS(vs []variant) []byte {
	var o []byte
	for _, v := range vs {
		o = append(o, v.QoS)
	}
	return o
}
func varIDs(vs []variant) [][]int {
	var o [][]int
	for _, v := range vs {
		o = append(o, v.SubIDs)
	}
	return o
}

func trunc(b []byte) string {
	if len(b) > 32 {
		return string(b[:32]) + "…"
	}
	return string(b)
}

// delivered-before bookkeeping (per connection slot and message)
var _ = refmatch.Match

func (sl *Slot) markDelivered(m *Msg) {
	if sl.Sess == nil {
		return
	}
	if sl.Sess.Taint == nil {
		sl.Sess.Taint = map[string]bool{}
	}
}

func (s *Sim) deliveredBefore(sl *Slot, msg *Msg) bool {
	for _, rp := range sl.Conn.Inbox[:len(sl.Conn.Inbox)-1] {
		if rp.P.Type == rc.PUBLISH && msgIDOf(rp.P.Payload) == msg.ID {
			return true
		}
	}
	return false
}

func isGlobalOp(k string) bool {
	return strings.HasPrefix(k, "inline") || k == "tick" || k == "sys" || k == "restart"
}
