package hist

import (
	"fmt"
	"sort"
	"strings"

	"verif/harness/eng"
	rc "verif/harness/refcodec"
	"verif/harness/refmatch"
)

// Msg is one application message with a unique payload token.
type Msg struct {
	ID             string   `json:"id"`
	Topic          string   `json:"topic"`
	QoS            byte     `json:"qos"`
	Retain         bool     `json:"retain"`
	Empty          bool     `json:"empty,omitempty"`
	Props          rc.Props `json:"props,omitempty"`
	From           string   `json:"from"`
	Step           int      `json:"step"`
	IsWill         bool     `json:"is_will,omitempty"`
	Inline         bool     `json:"inline,omitempty"`
	ExpAt          int64    `json:"exp_at,omitempty"` // virtual time after which it must not be first-delivered (0 = never)
	ExpIvl         uint32   `json:"exp_ivl,omitempty"`
	PubAt          int64    `json:"pub_at,omitempty"`
	WillWhy        string   `json:"will_why,omitempty"`         // why the model published this will
	WillErasedRisk bool     `json:"will_erased_risk,omitempty"` // a delayed will of an earlier connection with this id fired while this will's connection was live
	Payload        []byte   `json:"-"`
}

type MSub struct {
	Filter string
	QoS    byte
	NL     bool
	RAP    bool
	RH     byte
	ID     int
}

// variant is one acceptable rendering of a delivery (QoS, subscription ids).
type variant struct {
	QoS    byte
	SubIDs []int
}

// OutMsg is a QoS>0 message owed to a session until acknowledged.
type OutMsg struct {
	M           *Msg
	Vars        []variant // acceptable renderings; once sent, Vars is narrowed to the observed one
	Retain      []bool    // acceptable retain flags
	PID         uint16
	Sent        bool // first transmission observed
	Pubrec      bool // PUBREC received from the client (QoS 2)
	Deferred    bool // queued behind Receive Maximum by the model's reckoning
	Offline     bool // queued while the session had no connection
	Retained    bool // delivery of a retained message on subscribe
	WasDeferred bool // was at some point held back by Receive Maximum
	PubrecAt    int64 // model time at which the client's PUBREC was sent
}

type Session struct {
	ID        string
	Ver       byte
	Subs      map[string]*MSub
	Out       []*OutMsg
	InQ2      map[uint16]*Msg // inbound QoS 2 ids whose PUBREL is outstanding
	Slot      *Slot
	CleanV3   bool
	Expiry    uint32 // effective expiry interval in force (v5); v3 persistent = server maximum
	DiscAt    int64
	Taint     map[string]bool
	WillSlot  *Will
	Abandoned bool
	FirstTx   map[string]*txRec
	OtherQ2   map[uint16]bool // ids of untracked QoS 2 deliveries this session answered with PUBREC
	// StaleDeferred: messages settled (by the model's reckoning) on a session that has had messages held back by Receive
	// Maximum: the recorded deferred-release defect leaves store records behind, and leaks quota so that the broker may
	// have held back later messages too
	StaleDeferred map[string]bool
	LastRecvMax   uint16 // Receive Maximum of the connection that ended last
	EverOwed      map[string]bool // every QoS>0 message that was ever queued or in flight for this session
	LateAcks      map[uint16]byte // acknowledgements owed to a connection that ended before they arrived (id -> packet type)
	LeakyBefore   bool            // an earlier session of this client id had messages held back
}

type Expect struct {
	Kind     byte
	PID      uint16 // 0 = learn
	Out      *OutMsg
	Msg      *Msg
	Vars     []variant
	Retain   []bool
	Dup      int // -1 either, 0 must be clear, 1 must be set
	Codes    []func(byte) bool
	ReasonOK func(byte) bool
	SP       int // CONNACK session present: 0/1, -1 don't care
	Optional bool
	Rule     string
	Attrs    map[string]string
	Done     bool
	Group    *groupExp
	What     string
	Step     int
	SeqAfter int64
}

type groupExp struct {
	Key    string
	Msg    *Msg
	Free   []*Slot
	Busy   int
	Got    int
	AmbGot int
	Observ bool // all members connected: "exactly one" is observable
}

type Slot struct {
	resumePIDs   map[uint16]bool // outbound ids (re)sent as part of the burst that follows a CONNACK with session present
	Idx          int
	ClientID     string
	Conn         *eng.Client
	Ver          byte
	Sess         *Session
	Exp          []*Expect
	Hold         bool
	nextPID      uint16
	RecvMax      uint16
	TAM          uint16
	MPS          uint32
	RPI0         bool
	aliasOut     map[uint16]string
	aliasIn      map[uint16]string
	inflight     map[uint16]*OutMsg // broker-outbound ids in transit on this connection (PUBACK/PUBCOMP pending)
	ownQ2        map[uint16]bool    // own QoS 2 publishes awaiting PUBREC/PUBCOMP
	otherQ2      map[uint16]bool    // untracked QoS 2 deliveries (empty payload, $SYS) we answered with PUBREC
	ExpectClose  bool
	CloseRule    string
	sendQ        [][]byte
	connected    bool
	rxCount      int
	sawConnack   bool
	lastDiscSeen bool
	heldAcks     []*rc.Packet
	faulted      bool     // a write fault was injected on the current connection
	stalled      bool     // the connection currently refuses the broker's writes (backpressure)
	maxOutPID    uint16   // highest broker-assigned packet id seen on this connection
	heldQ2       []uint16 // own QoS 2 publishes (runtime-chosen ids) whose PUBREL is withheld
}

type retainedEntry struct {
	M *Msg
}

// Model is the executable reference of broker state.
type Model struct {
	Cfg          *Config
	Sessions     map[string]*Session
	Retained     map[string]*Msg
	Msgs         map[string]*Msg
	Now          int64 // virtual seconds since start
	Step         int
	Findings     []Finding
	Counts       map[string]int64
	groups       []*groupExp
	dropsAllowed int
	x            *modelExt
	WillDisp     map[string]string // will payload -> what the model decided (published, refused, cancelled_by_resume, ...)
}

func NewModel(cfg *Config) *Model {
	return &Model{Cfg: cfg, Sessions: map[string]*Session{}, Retained: map[string]*Msg{}, Msgs: map[string]*Msg{}, Counts: map[string]int64{}}
}

func (m *Model) flag(rule string, attrs map[string]string, format string, a ...any) {
	m.Findings = append(m.Findings, Finding{Rule: rule, Attrs: attrs, Detail: fmt.Sprintf(format, a...), Step: m.Step})
}

func (m *Model) count(k string) { m.Counts[k]++ }

func (m *Model) maxQoS() byte { return m.Cfg.MaxQoS }

func minb(a, b byte) byte {
	if a < b {
		return a
	}
	return b
}

func (m *Model) sessionExpiryCap(v uint32) uint32 {
	max := m.Cfg.MaxSessionExp
	if max == 0 {
		max = 0xFFFFFFFF
	}
	if v > max {
		return max
	}
	return v
}

// matching returns the subscriptions of s that match topic, split in non-shared and shared (by group key).
func (s *Session) matching(topic string) (plain []*MSub, shared map[string]*MSub) {
	shared = map[string]*MSub{}
	for _, sub := range s.Subs {
		g, inner, isShared := refmatch.SplitShare(sub.Filter)
		if isShared {
			if refmatch.Match(inner, topic) {
				shared[sub.Filter] = sub
				_ = g
			}
			continue
		}
		if refmatch.Match(sub.Filter, topic) {
			plain = append(plain, sub)
		}
	}
	sort.Slice(plain, func(i, j int) bool { return plain[i].Filter < plain[j].Filter })
	return
}

func subIDs(subs []*MSub) []int {
	var ids []int
	for _, s := range subs {
		if s.ID > 0 {
			ids = append(ids, s.ID)
		}
	}
	sort.Ints(ids)
	return ids
}

func maxSubQoS(subs []*MSub) byte {
	var q byte
	for _, s := range subs {
		if s.QoS > q {
			q = s.QoS
		}
	}
	return q
}

func eqInts(a, b []int) bool {
	if len(a) != len(b) {
		return false
	}
	for i := range a {
		if a[i] != b[i] {
			return false
		}
	}
	return true
}

// retainFlags: acceptable retain flag values on a live delivery.
func liveRetainFlags(ver byte, msgRetain bool, subs []*MSub) []bool {
	if !msgRetain || ver < 5 {
		return []bool{false}
	}
	anyRAP, allRAP := false, true
	for _, s := range subs {
		if s.RAP {
			anyRAP = true
		} else {
			allRAP = false
		}
	}
	switch {
	case allRAP:
		return []bool{true}
	case !anyRAP:
		return []bool{false}
	}
	return []bool{false, true}
}

func appProps(ps rc.Props) rc.Props {
	var out rc.Props
	for _, p := range ps {
		switch p.ID {
		case rc.PContentType, rc.PCorrelationData, rc.PResponseTopic, rc.PUserProperty, rc.PPayloadFormat:
			if len(p.Bin) == 0 {
				p.Bin = nil
			}
			out = append(out, p)
		}
	}
	sort.SliceStable(out, func(i, j int) bool { return out[i].ID < out[j].ID })
	return out
}

func propsEqual(a, b rc.Props) bool {
	if len(a) != len(b) {
		return false
	}
	for i := range a {
		if a[i].ID != b[i].ID || a[i].Num != b[i].Num || a[i].Str != b[i].Str || a[i].Val != b[i].Val || string(a[i].Bin) != string(b[i].Bin) {
			return false
		}
	}
	return true
}

func topicShape(t string) string {
	switch {
	case strings.HasPrefix(t, "$SYS"):
		return "$SYS"
	case strings.HasPrefix(t, "$"):
		return "$other"
	}
	return "plain"
}

// txRec records the first transmission of a message to a session (C12).
type txRec struct {
	ID, From, Topic string
	QoS             byte
	No              int
	Seq             int64
}

func msgNo(m *Msg) int {
	n := 0
	for _, ch := range m.ID[1:] {
		n = n*10 + int(ch-'0')
	}
	return n
}
