package hist

import (
	"fmt"
	"sort"
	"time"

	rc "verif/harness/refcodec"
	"verif/harness/refmatch"
)

type pendingWill struct {
	Sess  *Session
	W     *Will
	DueAt int64 // virtual time after which it must have been published by a housekeeping run
}

// extension state kept on the model
type modelExt struct {
	lastSweep   int64 // virtual time of the last housekeeping run
	sweeps      int
	pendingWill map[string]*pendingWill
}

func (m *Model) ext() *modelExt {
	if m.x == nil {
		m.x = &modelExt{pendingWill: map[string]*pendingWill{}}
	}
	return m.x
}

func (s *Sim) realNow() int64 { return time.Now().Unix() }

// stepExt handles the less common operations; returns false for unknown kinds.
func (s *Sim) stepExt(op *Op) bool {
	switch op.Kind {
	case "tick":
		s.opTick(op)
	case "restart":
		s.opRestart()
	case "pubrel":
		sl := s.Slots[op.C]
		if op.PID == 0 && !op.Collide {
			if len(sl.heldQ2) == 0 {
				return true
			}
			op.PID, sl.heldQ2 = sl.heldQ2[0], sl.heldQ2[1:]
		}
		if op.Collide {
			// use an id that the broker has outstanding towards this client (its own outbound id space)
			ids := make([]int, 0, len(sl.inflight))
			for k := range sl.inflight {
				ids = append(ids, int(k))
			}
			sort.Ints(ids)
			op.PID = 1
			if len(ids) > 0 {
				op.PID = uint16(ids[0])
				sl.Sess.Taint["pid_collision"] = true
				s.M.count("pubrel_with_colliding_id")
			}
		}
		for i, h := range sl.heldQ2 {
			if h == op.PID {
				sl.heldQ2 = append(sl.heldQ2[:i:i], sl.heldQ2[i+1:]...)
				break
			}
		}
		if _, out := sl.inflight[op.PID]; out && sl.Sess.InQ2[op.PID] == nil && !sl.Sess.Taint["pid_collision"] {
			// not the release of an exchange of its own: this PUBREL names an id the broker has outstanding towards the client
			sl.Sess.Taint["pid_collision"] = true
			s.M.count("pubrel_with_colliding_id")
		}
		s.clientSend(sl, &rc.Packet{Type: rc.PUBREL, Version: sl.Ver, PacketID: op.PID})
		what := "PUBCOMP for PUBREL"
		if _, ok := sl.Sess.InQ2[op.PID]; !ok {
			what = "PUBCOMP (id not found) for PUBREL of unknown id"
		}
		delete(sl.Sess.InQ2, op.PID)
		sl.expect(&Expect{Kind: rc.PUBCOMP, PID: op.PID, Rule: "C07/no-response", What: what, Step: s.M.Step, SP: -1})
	case "ackone":
		// send the oldest withheld acknowledgement only; keep withholding the rest
		sl := s.Slots[op.C]
		if len(sl.heldAcks) > 0 {
			p := sl.heldAcks[0]
			sl.heldAcks = sl.heldAcks[1:]
			s.clientAck(sl, p.Type, p.PacketID)
		}
	case "failwrite":
		// fault injection: the broker's N-th next write on this connection fails (N>=1)
		n := op.N
		if n < 1 {
			n = 1
		}
		s.Slots[op.C].Conn.MC.FailWriteAt(n)
		s.Slots[op.C].faulted = true
		s.M.count("write_faults_armed")
	case "stall":
		// backpressure: the connection stops accepting the broker's writes (Hold=true) or accepts them again; while it
		// is stalled whatever is owed to it simply has not arrived yet (expectations stay open, see endStep)
		sl := s.Slots[op.C]
		sl.stalled = op.Hold
		sl.Conn.MC.SetStall(op.Hold)
		s.M.count("stall_toggles")
	case "raw":
		// handled by specialised checks
	default:
		return s.stepInline(op)
	}
	return true
}

// opTick advances virtual time by Delta seconds and runs the broker's housekeeping with that clock.
func (s *Sim) opTick(op *Op) {
	m := s.M
	x := m.ext()
	m.Now += op.Delta
	now := s.realNow() + m.Now
	// model first (expectations must exist before the broker acts)
	// 1. delayed wills that are due
	ids := make([]string, 0, len(x.pendingWill))
	for id := range x.pendingWill {
		ids = append(ids, id)
	}
	sort.Strings(ids)
	for _, id := range ids {
		pw := x.pendingWill[id]
		if m.Now > pw.DueAt {
			delete(x.pendingWill, id)
			s.publishWill(pw.Sess, pw.W, "delay-elapsed")
		}
	}
	// 2. sessions whose expiry has elapsed
	sids := make([]string, 0, len(m.Sessions))
	for id := range m.Sessions {
		sids = append(sids, id)
	}
	sort.Strings(sids)
	for _, id := range sids {
		t := m.Sessions[id]
		if t.Abandoned || t.Slot != nil {
			continue
		}
		exp := int64(t.Expiry)
		if t.Ver < 5 {
			exp = int64(m.sessionExpiryCap(0xFFFFFFFF))
		}
		if t.DiscAt+exp < m.Now {
			t.Abandoned = true
			t.Subs = map[string]*MSub{}
			t.noteStale()
			t.Out = nil
			m.count("sessions_expired_by_tick")
		}
	}
	// 3. queued / in-flight messages past their expiry
	for _, id := range sids {
		t := m.Sessions[id]
		keep := t.Out[:0]
		for _, o := range t.Out {
			// a message the client has answered with PUBREC has been delivered: what is left is the PUBREL/PUBCOMP
			// handshake, which the message's own expiry does not cancel; the broker keeps that state for the server's
			// maximum message expiry interval, counted from the PUBREC
			pubrelGone := false
			if o.Pubrec {
				if mx := s.effectiveExpiry(0); mx > 0 && m.Now-o.PubrecAt > mx {
					pubrelGone = true
					m.count("pubrel_state_dropped_after_server_maximum")
				}
			}
			if (o.M.ExpAt > 0 && m.Now > o.M.ExpAt && !o.Pubrec) || pubrelGone {
				m.count("inflight_expired")
				if t.Slot != nil {
					for _, e := range t.Slot.Exp {
						if e.Out == o && !e.Done {
							e.Done = true
						}
					}
					if o.PID != 0 {
						delete(t.Slot.inflight, o.PID)
					}
				}
				continue
			}
			keep = append(keep, o)
		}
		t.Out = keep
	}
	x.lastSweep = m.Now
	x.sweeps++
	// virtual time: every stored timestamp becomes Delta seconds older, then housekeeping runs on the real clock
	s.B.S.VerifAgeState(op.Delta)
	now = s.realNow()
	// the event loop's tickers fire in no fixed order: both orders of the will and the session sweep are exercised
	if op.N%2 == 1 {
		s.B.S.VerifClearExpiredClients(now)
		s.B.S.VerifSendDelayedLWT(now)
	} else {
		s.B.S.VerifSendDelayedLWT(now)
		s.B.S.VerifClearExpiredClients(now)
	}
	s.B.S.VerifClearExpiredRetainedMessages(now)
	s.B.S.VerifClearExpiredInflights(now)
}

func (s *Sim) expiredSeenByHousekeeping(rm *Msg) bool {
	return s.M.ext().lastSweep > rm.ExpAt
}

// willDue decides what happens to a will when its connection ended for reason why.
func (s *Sim) willDue(sess *Session, w *Will, why string, sessionEnds, resumedByTakeover bool) {
	m := s.M
	x := m.ext()
	if w.Delay > 0 && sess.Ver == 5 && !sessionEnds {
		if resumedByTakeover {
			m.count("delayed_will_cancelled_by_takeover")
			m.setWillDisp(w, "cancelled_by_takeover")
			return
		}
		d := int64(w.Delay)
		if int64(sess.Expiry) < d {
			d = int64(sess.Expiry)
		}
		x.pendingWill[sess.ID] = &pendingWill{Sess: sess, W: w, DueAt: m.Now + d}
		m.setWillDisp(w, "pending_delay")
		m.count("delayed_will_registered")
		return
	}
	s.publishWill(sess, w, why)
}

func (s *Sim) publishWill(sess *Session, w *Will, why string) {
	m := s.M
	msg := m.Msgs[w.Payload]
	if msg == nil {
		return
	}
	if !refmatch.ValidPublishTopic(w.Topic) || containsWildcard(w.Topic) || s.Cfg.Denied(sess.ID, w.Topic, true) {
		m.count("will_refused")
		m.setWillDisp(w, "refused")
		return
	}
	msg.Step = m.Step
	msg.PubAt = m.Now
	msg.WillWhy = why
	if e := s.effectiveExpiry(0); e > 0 {
		msg.ExpAt = m.Now + e
	}
	// a delayed will that fires while a newer connection holds the same client id erases that connection's will
	if why == "delay-elapsed" {
		if t := m.Sessions[msg.From]; t != nil && t.Slot != nil && t.WillSlot != nil && t.WillSlot.Payload != msg.ID {
			if wm := m.Msgs[t.WillSlot.Payload]; wm != nil {
				wm.WillErasedRisk = true
			}
		}
	}
	m.count("wills_expected")
	m.setWillDisp(w, "published")
	s.route(msg)
}

func containsWildcard(t string) bool {
	for i := 0; i < len(t); i++ {
		if t[i] == '+' || t[i] == '#' {
			return true
		}
	}
	return false
}

// cancelPendingWill: a connection resuming (clean start 0) or replacing (clean start 1) the session arrived.
func (s *Sim) pendingWillOnConnect(id string, clean bool) {
	m := s.M
	x := m.ext()
	pw := x.pendingWill[id]
	if pw == nil {
		return
	}
	delete(x.pendingWill, id)
	if clean {
		// the session ends now: the will is published now ("delay elapses or session ends, whichever is first")
		m.count("delayed_will_session_ended_by_clean_start")
		s.publishWill(pw.Sess, pw.W, "session-ended-by-clean-start")
		return
	}
	m.count("delayed_will_cancelled_by_resume")
	m.setWillDisp(pw.W, "cancelled_by_resume")
}

// inboundAlias resolves/validates the topic alias of a client publish. Returns false if the
// publish must be rejected (and models the rejection).
func (s *Sim) inboundAlias(sl *Slot, msg *Msg, op *Op) bool {
	if sl.Ver != 5 || (op.Alias == 0 && !op.NoTopic) {
		return true
	}
	m := s.M
	max := s.Cfg.TopicAliasMax
	if max == 0 {
		max = 65535
	}
	if max < 0 {
		max = 0
	}
	reject := func(why string) bool {
		m.count("inbound_alias_rejected_" + why)
		// must not be routed; the broker either closes the connection or answers with a failure code
		sl.ExpectClose = true
		sl.expect(&Expect{Kind: rc.DISCONNECT, Optional: true, Rule: "C24/inbound-alias", What: "rejection of invalid alias use", Step: m.Step, SP: -1})
		s.aliasRejected = append(s.aliasRejected, aliasRej{sl: sl, msg: msg, why: why, pid: op.PID, seq: s.B.Seq.Now()})
		return false
	}
	if int(op.Alias) > max {
		return reject("exceeds-maximum")
	}
	if op.NoTopic {
		t, ok := sl.aliasIn[op.Alias]
		if !ok || op.Alias == 0 {
			return reject("unbound")
		}
		msg.Topic = t
		m.count("inbound_alias_resolved")
		return true
	}
	sl.aliasIn[op.Alias] = msg.Topic
	m.count("inbound_alias_bound")
	return true
}

type aliasRej struct {
	sl  *Slot
	msg *Msg
	why string
	pid uint16
	seq int64
}

func (s *Sim) checkMsgExpiry(sl *Slot, msg *Msg, p *rc.Packet, exp *Expect) {
	m := s.M
	e := s.effectiveExpiry(msg.ExpIvl)
	pp, has := p.Props.Get(rc.PMessageExpiry)
	if !has {
		return
	}
	m.count("msg_expiry_observed")
	if e > 0 && int64(pp.Num) > e {
		a := sl.taintAttrs()
		a["deferred"] = fmt.Sprint(exp.Out != nil && sl.Sess != nil && sl.Sess.Taint["deferred"])
		m.flag("C25/expiry-interval-grew", a, "slot %d: %s delivered with Message Expiry Interval %d, effective interval at publish was %d (publisher %d, server max %d)", sl.Idx, msg.ID, pp.Num, e, msg.ExpIvl, s.Cfg.MaxMsgExpiry)
	}
}

// progressCheck is the bounded form of "every message queued behind the limit is eventually
// sent": after a PINGREQ round on a connection that has acknowledged everything it received,
// no message owed to that session may still be waiting for its first transmission.
func (s *Sim) progressCheck() {
	if s.curOp == nil || s.curOp.Kind != "ping" {
		return
	}
	sl := s.Slots[s.curOp.C]
	if !sl.connected || sl.Hold || len(sl.heldAcks) > 0 || len(sl.inflight) > 0 || sl.Sess == nil {
		return
	}
	s.M.count("progress_points")
	for _, o := range sl.Sess.Out {
		if !o.Sent {
			a := sl.taintAttrs()
			s.M.flag("C11/progress", a, "slot %d (%s, Receive Maximum %d): %s is still not sent although the client has acknowledged everything it received and pinged", sl.Idx, sl.ClientID, sl.RecvMax, o.M.ID)
			return
		}
	}
}

func (m *Model) setWillDisp(w *Will, d string) {
	if m.WillDisp == nil {
		m.WillDisp = map[string]string{}
	}
	m.WillDisp[w.Payload] = d
}

func (s *Sim) outbufOf(sl *Slot) int {
	if cl, ok := s.B.S.Clients.Get(sl.ClientID); ok && sl.Conn != nil && cl.Net.Remote == sl.Conn.Name {
		return cl.VerifOutbuf()
	}
	return 0
}
