// Package hist executes step-wise histories of MQTT operations against a real broker
// (through eng) and checks every broker reaction against an executable reference model
// written from the property statements.
package hist

import (
	rc "verif/harness/refcodec"
)

// Config fixes the broker configuration and the permission relation of one case.
type Config struct {
	MaxQoS          byte   `json:"max_qos"`
	RetainAvailable bool   `json:"retain_available"`
	ServerRecvMax   uint16 `json:"server_recv_max"` // 0 = default 1024
	MaxSessionExp   uint32 `json:"max_session_exp"` // 0 = default (max uint32)
	MaxMsgExpiry    int64  `json:"max_msg_expiry"`  // -1 = 0 (off), 0 = default 86400
	WritesPending   int32  `json:"writes_pending"`  // 0 = default
	WriteBuf        int    `json:"write_buf"`       // 0 = default
	MaxInflight     uint16 `json:"max_inflight"`    // 0 = default
	TopicAliasMax   int    `json:"topic_alias_max"` // -1 = 0, 0 = default 65535
	ObscureNotAuth  bool   `json:"obscure_not_auth"`
	MaxPacketSize   uint32 `json:"max_packet_size"`
	Inline          bool   `json:"inline"`
	// ACL: denied (client,topic-or-filter,write) triples; nil = allow all
	Deny map[string]bool `json:"deny,omitempty"`
}

func (c *Config) Denied(client, topic string, write bool) bool {
	if c.Deny == nil {
		return false
	}
	k := client + "|" + topic + "|r"
	if write {
		k = client + "|" + topic + "|w"
	}
	return c.Deny[k]
}

// Op is one step of a history. Fields are used according to Kind.
type Op struct {
	Kind string `json:"kind"`
	C    int    `json:"c"` // client slot

	// connect
	Ver       byte   `json:"ver,omitempty"`
	Clean     bool   `json:"clean,omitempty"`
	Expiry    uint32 `json:"expiry,omitempty"`
	ExpirySet bool   `json:"expiry_set,omitempty"`
	RecvMax   uint16 `json:"recv_max,omitempty"`
	TAM       uint16 `json:"tam,omitempty"`
	MPS       uint32 `json:"mps,omitempty"`
	RPI0      bool   `json:"rpi0,omitempty"` // Request Problem Information = 0
	Will      *Will  `json:"will,omitempty"`
	KeepAlive uint16 `json:"keepalive,omitempty"`

	// subscribe / unsubscribe
	Filters []rc.SubFilter `json:"filters,omitempty"`
	SubID   int            `json:"sub_id,omitempty"`

	// publish
	Topic       string   `json:"topic,omitempty"`
	QoS         byte     `json:"qos,omitempty"`
	Retain      bool     `json:"retain,omitempty"`
	Empty       bool     `json:"empty,omitempty"` // empty payload (retained delete)
	Props       rc.Props `json:"props,omitempty"`
	Dup         bool     `json:"dup,omitempty"`
	PID         uint16   `json:"pid,omitempty"` // explicit packet id (0 = allocate)
	Alias       uint16   `json:"alias,omitempty"`
	NoTopic     bool     `json:"no_topic,omitempty"`     // send empty topic (alias use)
	Collide     bool     `json:"collide,omitempty"`      // use a packet id the broker currently has outstanding towards this client
	CollideNext bool     `json:"collide_next,omitempty"` // own QoS 2 publish under the id the broker will assign to its next outbound message on this connection; PUBREL withheld
	HeldDup     bool   `json:"held_dup,omitempty"` // DUP retransmission of the oldest withheld own QoS 2 publish (id known at run time)
	MsgExp      uint32   `json:"msg_exp,omitempty"`
	Size        int      `json:"size,omitempty"` // payload filler

	// disconnect
	Reason byte   `json:"reason,omitempty"`
	How    string `json:"how,omitempty"` // normal | will | drop | garbage | second-connect | keepalive

	// ack control
	Hold bool `json:"hold,omitempty"` // set-policy: withhold acknowledgements of broker-outbound messages
	N    int  `json:"n,omitempty"`

	// tick
	Delta int64 `json:"delta,omitempty"`
}

type Will struct {
	Topic   string `json:"topic"`
	QoS     byte   `json:"qos"`
	Retain  bool   `json:"retain"`
	Delay   uint32 `json:"delay,omitempty"`
	Payload string `json:"payload,omitempty"` // filled by the simulator (unique)
}

// Finding is a rule breach observed by the model.
type Finding struct {
	Rule   string            `json:"rule"`
	Attrs  map[string]string `json:"attrs,omitempty"`
	Detail string            `json:"detail"`
	Step   int               `json:"step"`
}
