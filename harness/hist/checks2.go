package hist

import (
	"fmt"
	"sort"
	"strconv"
	"strings"
	"sync"
	"time"

	mqtt "github.com/mochi-mqtt/server/v2"
	"github.com/mochi-mqtt/server/v2/packets"

	rc "verif/harness/refcodec"
	"verif/harness/refmatch"
)

// ---------------------------------------------------------------- C24 inbound alias rejection

func (s *Sim) aliasRejectionCheck() {
	for _, ar := range s.aliasRejected {
		sl := ar.sl
		closed := !sl.connected
		if sl.Conn != nil {
			if c, _ := sl.Conn.MC.BrokerClosed(); c || sl.Conn.Done() {
				closed = true
			}
		}
		negAck := false
		posAck := false
		if sl.Conn != nil {
			for _, rp := range sl.Conn.Inbox {
				if (rp.P.Type == rc.PUBACK || rp.P.Type == rc.PUBREC) && ar.msg.QoS > 0 && rp.P.PacketID != 0 && rp.Seq > ar.seq {
					if rp.P.Reason >= 0x80 {
						negAck = true
					} else {
						posAck = true
					}
				}
			}
		}
		if !closed && !negAck {
			a := map[string]string{"why": ar.why, "acknowledged_with_success": fmt.Sprint(posAck), "qos": fmt.Sprint(ar.msg.QoS)}
			s.M.flag("C24/inbound-alias-not-rejected", a, "slot %d (%s): PUBLISH with %s topic alias was neither refused with a failure code nor did the broker close the connection (success ack: %v)", sl.Idx, sl.ClientID, ar.why, posAck)
		}
		s.M.count("inbound_alias_rejections_checked")
	}
	s.aliasRejected = nil
}

// ---------------------------------------------------------------- C38 statistics

func (s *Sim) statsCheck() {
	if !s.Opt.CheckStats {
		return
	}
	m := s.M
	info := s.B.S.Info.Clone()
	act := s.B.S.VerifActualCounts()
	open := 0
	for _, sl := range s.Slots {
		if sl.connected && sl.sawConnack && sl.Conn != nil {
			if c, _ := sl.Conn.MC.BrokerClosed(); !c && !sl.Conn.Done() {
				open++
			}
		}
	}
	m.count("stats_points")
	taints := map[string]string{}
	for _, t := range m.Sessions {
		for k := range t.Taint {
			taints["taint_"+k] = "true"
		}
	}
	kind := ""
	if s.curOp != nil {
		kind = s.curOp.Kind
	}
	flag := func(name string, reported, actual int64) {
		if reported == actual && reported >= 0 {
			return
		}
		a := map[string]string{"counter": name, "after_op": kind, "negative": fmt.Sprint(reported < 0), "drift": fmt.Sprint(sign(reported - actual))}
		for k, v := range taints {
			a[k] = v
		}
		key := name
		if s.statsFlagged == nil {
			s.statsFlagged = map[string]bool{}
		}
		if s.statsFlagged[key] {
			return // report the first divergence of each counter per history; later ones are consequences
		}
		s.statsFlagged[key] = true
		m.flag("C38/counter-mismatch", a, "after step %d (%s): $SYS %s reports %d, actual %d", m.Step, kind, name, reported, actual)
	}
	flag("clients_connected", info.ClientsConnected, int64(open))
	flag("subscriptions", info.Subscriptions, int64(act.Subscriptions))
	flag("retained", info.Retained, int64(act.Retained))
	flag("inflight", info.Inflight, int64(act.Inflight))
}

func sign(v int64) int {
	switch {
	case v > 0:
		return 1
	case v < 0:
		return -1
	}
	return 0
}

// ---------------------------------------------------------------- C34 flush / conservation of reported output

func (s *Sim) flushCheck() {
	if !s.Opt.CheckFlush {
		return
	}
	m := s.M
	evs, n := s.B.EventsSince(s.flushIdx)
	s.flushIdx = n
	if s.sentBy == nil {
		s.sentBy = map[string][]byte{}
	}
	// The byte slice handed to OnPacketSent is empty for directly written packets (the buffer has been
	// drained into the connection by then), so reported and written output are compared packet by
	// packet: (type, packet id, payload token) reported == decoded from the wire, as multisets.
	for _, e := range evs {
		if e.Hook == "OnPacketSent" {
			key := fmt.Sprintf("%d/%d/%s", e.Type, e.PID, msgIDOf([]byte(e.Payload)))
			if s.reported == nil {
				s.reported = map[string]map[string]int{}
			}
			if s.reported[e.Remote] == nil {
				s.reported[e.Remote] = map[string]int{}
			}
			s.reported[e.Remote][key]++
		}
	}
	for _, sl := range s.Slots {
		if sl.Conn == nil || sl.faulted || sl.Conn.DecErr != nil {
			continue
		}
		rep := s.reported[sl.Conn.Name]
		wire := map[string]int{}
		for _, rp := range sl.Conn.Inbox {
			pl := ""
			if rp.P.Type == rc.PUBLISH {
				pl = msgIDOf(rp.P.Payload)
			}
			wire[fmt.Sprintf("%d/%d/%s", rp.P.Type, rp.P.PacketID, pl)]++
		}
		m.count("flush_points")
		if len(sl.Conn.Inbox) >= 2 {
			m.count("flush_points_multi")
		}
		if !eqCount(rep, wire) {
			var missing, extra []string
			for k, v := range rep {
				if wire[k] < v {
					missing = append(missing, k)
				}
			}
			for k, v := range wire {
				if rep[k] < v {
					extra = append(extra, k)
				}
			}
			sort.Strings(missing)
			sort.Strings(extra)
			a := map[string]string{"reported_not_written": fmt.Sprint(len(missing) > 0), "written_not_reported": fmt.Sprint(len(extra) > 0), "mps": fmt.Sprint(sl.MPS > 0)}
			if !s.flushFlagged[sl.Conn.Name] {
				if s.flushFlagged == nil {
					s.flushFlagged = map[string]bool{}
				}
				s.flushFlagged[sl.Conn.Name] = true
				m.flag("C34/reported-sent-not-on-wire", a, "slot %d (%s) at quiescence after step %d: packets (type/id/payload) reported through OnPacketSent but not on the wire: %v; on the wire but not reported: %v; stranded buffer bytes: %d", sl.Idx, sl.ClientID, m.Step, missing, extra, s.outbufOf(sl))
			}
		}
		if sl.connected {
			if cl, ok := s.B.S.Clients.Get(sl.ClientID); ok && cl.Net.Remote == sl.Conn.Name {
				if k := cl.VerifOutbuf(); k > 0 && !s.flushFlagged[sl.Conn.Name+"#buf"] {
					if s.flushFlagged == nil {
						s.flushFlagged = map[string]bool{}
					}
					s.flushFlagged[sl.Conn.Name+"#buf"] = true
					m.flag("C34/bytes-stranded-in-buffer", map[string]string{"mps": fmt.Sprint(sl.MPS > 0)}, "slot %d (%s) at quiescence after step %d: %d bytes accepted for writing are still in the client's output buffer", sl.Idx, sl.ClientID, m.Step, k)
				}
			}
		}
	}
}

// ---------------------------------------------------------------- C40 inline client

type inlineEv struct {
	ID      int
	Filter  string
	Payload string
	Topic   string
	Retain  bool
}

type inlineState struct {
	mu   sync.Mutex
	log  []inlineEv
	subs map[string]bool // "id|filter"
	idx  int
}

func (s *Sim) inline() *inlineState {
	if s.inl == nil {
		s.inl = &inlineState{subs: map[string]bool{}}
	}
	return s.inl
}

func (s *Sim) stepInline(op *Op) bool {
	m := s.M
	st := s.inline()
	switch op.Kind {
	case "inline-subscribe":
		f := op.Filters[0].Filter
		id := op.SubID
		key := fmt.Sprintf("%d|%s", id, f)
		// expected: retained messages matching the filter, immediately
		exp := map[string]int{}
		if refmatch.ValidFilter(f) {
			for t, rm := range m.Retained {
				if refmatch.Match(f, t) {
					exp[rm.ID]++
				}
			}
		}
		before := s.inlineCount()
		err := s.B.S.Subscribe(f, id, func(cl *mqtt.Client, sub packets.Subscription, pk packets.Packet) {
			st.mu.Lock()
			st.log = append(st.log, inlineEv{ID: sub.Identifier, Filter: sub.Filter, Payload: string(pk.Payload), Topic: pk.TopicName, Retain: pk.FixedHeader.Retain})
			st.mu.Unlock()
		})
		if refmatch.ValidFilter(f) != (err == nil) {
			m.flag("C40/inline-subscribe-result", map[string]string{"filter_valid": fmt.Sprint(refmatch.ValidFilter(f))}, "Server.Subscribe(%q) returned %v", f, err)
		}
		if err == nil {
			st.subs[key] = true
			m.count("inline_subscriptions")
		}
		got := map[string]int{}
		for _, e := range s.inlineSince(before) {
			if e.ID == id && e.Filter == f {
				got[msgIDOf([]byte(e.Payload))]++
			}
		}
		if err == nil && !eqCount(exp, got) {
			m.flag("C40/inline-retained-on-subscribe", map[string]string{"shape": filterShape(f)}, "inline subscription %d to %q: handler received retained %v, expected %v", id, f, got, exp)
		}
		if len(exp) > 0 {
			m.count("inline_retained_expected")
		}
	case "inline-unsubscribe":
		f := op.Filters[0].Filter
		key := fmt.Sprintf("%d|%s", op.SubID, f)
		_ = s.B.S.Unsubscribe(f, op.SubID)
		delete(st.subs, key)
		m.count("inline_unsubscriptions")
	case "inline-publish":
		msg := s.newMsg(op, "inline")
		msg.Inline = true
		if e := s.effectiveExpiry(0); e > 0 {
			msg.ExpAt = m.Now + e
		}
		before := s.inlineCount()
		s.route(msg)
		s.expectInline(msg, before, true)
		err := s.B.S.Publish(op.Topic, msg.Payload, op.Retain, op.QoS)
		if err != nil {
			m.flag("C40/inline-publish-error", nil, "Server.Publish(%q) returned %v", op.Topic, err)
		}
		m.count("inline_publishes")
	default:
		return false
	}
	return true
}

func (s *Sim) inlineCount() int {
	st := s.inline()
	st.mu.Lock()
	defer st.mu.Unlock()
	return len(st.log)
}

func (s *Sim) inlineSince(i int) []inlineEv {
	st := s.inline()
	st.mu.Lock()
	defer st.mu.Unlock()
	return append([]inlineEv{}, st.log[i:]...)
}

func eqCount(a, b map[string]int) bool {
	if len(a) != len(b) {
		return false
	}
	for k, v := range a {
		if b[k] != v {
			return false
		}
	}
	return true
}

// expectInline registers the expectation that every matching inline subscription is invoked exactly once for msg.
func (s *Sim) expectInline(msg *Msg, from int, _ bool) {
	s.pendingInline = append(s.pendingInline, pendingInline{msg: msg, from: from})
}

type pendingInline struct {
	msg  *Msg
	from int
}

func (s *Sim) inlineCheck() {
	if s.inl == nil {
		s.pendingInline = nil
		return
	}
	m := s.M
	st := s.inl
	for _, pi := range s.pendingInline {
		want := map[string]int{}
		for key := range st.subs {
			parts := strings.SplitN(key, "|", 2)
			if refmatch.Match(parts[1], pi.msg.Topic) {
				want[key]++
			}
		}
		got := map[string]int{}
		for _, e := range s.inlineSince(pi.from) {
			if msgIDOf([]byte(e.Payload)) == pi.msg.ID {
				got[fmt.Sprintf("%d|%s", e.ID, e.Filter)]++
			}
		}
		if !eqCount(want, got) {
			var shapes []string
			for k := range want {
				if got[k] != want[k] {
					shapes = append(shapes, filterShapeFull(strings.SplitN(k, "|", 2)[1], pi.msg.Topic))
				}
			}
			for k := range got {
				if want[k] != got[k] {
					shapes = append(shapes, "extra:"+filterShapeFull(strings.SplitN(k, "|", 2)[1], pi.msg.Topic))
				}
			}
			sort.Strings(shapes)
			m.flag("C40/inline-handler-invocations", map[string]string{"shapes": strings.Join(uniqS(shapes), ",")}, "message %s on %q: inline handlers invoked %v, expected %v", pi.msg.ID, pi.msg.Topic, got, want)
		}
		if len(want) > 0 {
			m.count("inline_deliveries_expected")
		}
	}
	s.pendingInline = nil
}

func uniqS(a []string) []string {
	var o []string
	for i, v := range a {
		if i == 0 || v != a[i-1] {
			o = append(o, v)
		}
	}
	return o
}

func filterShapeFull(f, topic string) string {
	sh := filterShape(f)
	if strings.HasSuffix(f, "/#") && strings.TrimSuffix(f, "/#") == topic {
		sh += "-parent"
	}
	if strings.HasPrefix(topic, "$") {
		sh += "-dollar"
	}
	return sh
}

// sysTopicsCheck (C38, end of history): after the broker has published its $SYS values, the payloads of the
// four state counters must equal the actual state (probed). The $SYS messages are themselves retained, so the
// retained count is accepted with or without them.
func (s *Sim) sysTopicsCheck() {
	if !s.Opt.CheckStats || s.Incon != "" || s.nmsg%3 != 0 {
		return // every third history (by its message count) ends with the $SYS publication
	}
	m := s.M
	if !s.B.Quiesce(10 * time.Second) {
		return
	}
	before := s.B.S.VerifActualCounts()
	s.B.S.VerifPublishSysTopics()
	s.B.Quiesce(10 * time.Second)
	after := s.B.S.VerifActualCounts()
	open := 0
	for _, sl := range s.Slots {
		if sl.connected && sl.sawConnack && sl.Conn != nil {
			if c, _ := sl.Conn.MC.BrokerClosed(); !c && !sl.Conn.Done() {
				open++
			}
		}
	}
	get := func(t string) (int64, bool) {
		pk, ok := s.B.S.Topics.Retained.Get(t)
		if !ok {
			return 0, false
		}
		v, err := strconv.ParseInt(string(pk.Payload), 10, 64)
		return v, err == nil
	}
	check := func(topic string, ok1, ok2 int64) {
		v, ok := get(topic)
		m.count("sys_topic_payloads_checked")
		if !ok {
			m.flag("C38/sys-topic-payload", map[string]string{"topic": topic, "missing": "true"}, "%s is not published (or not a number) after the $SYS publication", topic)
			return
		}
		if v != ok1 && v != ok2 {
			m.flag("C38/sys-topic-payload", map[string]string{"topic": topic}, "%s carries %d, actual value %d", topic, v, ok1)
		}
	}
	check("$SYS/broker/clients/connected", int64(open), int64(open))
	check("$SYS/broker/subscriptions", int64(before.Subscriptions), int64(before.Subscriptions))
	check("$SYS/broker/messages/inflight", int64(before.Inflight), int64(after.Inflight))
	check("$SYS/broker/retained", int64(before.Retained), int64(after.Retained))
}
