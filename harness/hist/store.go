package hist

import (
	"fmt"
	"sort"
	"strings"

	"github.com/mochi-mqtt/server/v2/packets"
)

// opRestart shuts the broker down in an orderly way and starts a new one on the same store
// (a restart is a no-op for the model's persistent state: sessions, subscriptions, retained
// messages and unacknowledged in-flight messages carry over).
func (s *Sim) opRestart() {
	m := s.M
	if s.Opt.StoreOpen == nil {
		m.count("restart_skipped_no_store")
		return
	}
	for _, sl := range s.Slots {
		if sl.connected {
			s.opDisconnect(&Op{Kind: "disconnect", C: sl.Idx, How: "drop"})
			s.settle()
			s.endStep()
		}
	}
	m.count("restarts")
	s.Restarts++
	_ = s.B.S.Close() // stops the hooks: the store is closed cleanly
	s.B.Shutdown()
	s.B = s.makeBroker()
	if err := s.B.S.VerifReadStore(); err != nil {
		m.flag("C20/read-store-error", nil, "loading the store after restart %d failed: %v", s.Restarts, err)
	}
	s.evIdx, s.flushIdx, s.lastInflightDropped, s.lastMsgsDropped = 0, 0, 0, 0
	s.reported, s.sentBy = nil, nil
	for _, sl := range s.Slots {
		sl.Conn = nil
		sl.Exp = nil
	}
	// the new broker stamps restored sessions as disconnected now; delayed wills live in memory only
	for _, t := range m.Sessions {
		if !t.Abandoned {
			t.DiscAt = m.Now
		}
	}
	x := m.ext()
	for id, pw := range x.pendingWill {
		m.setWillDisp(pw.W, "lost_by_restart")
		delete(x.pendingWill, id)
	}
	s.restoredCheck()
	if s.Opt.AfterRestart != nil {
		s.Opt.AfterRestart(s)
	}
}

// persistent reports whether a (disconnected) model session outlives its connection.
func (t *Session) persistent() bool {
	if t.Abandoned {
		return false
	}
	if t.Ver < 5 {
		return !t.CleanV3
	}
	return t.Expiry > 0
}

// keyCollision: do two different (client id, filter) pairs of this case concatenate to the same "id:filter"?
func (s *Sim) keyCollision(id, filter string) bool {
	want := id + ":" + filter
	for _, a := range s.Opt.ClientIDs {
		if a == id {
			continue
		}
		if strings.HasPrefix(want, a+":") {
			return true // some other id is a prefix such that a + ":" + rest == want
		}
	}
	return false
}

func (s *Sim) anyCollisionRisk(id string) bool {
	for _, a := range s.Opt.ClientIDs {
		if a != id && (strings.HasPrefix(a, id+":") || strings.HasPrefix(id, a+":")) {
			return true
		}
	}
	return false
}

// restoredCheck compares what the restarted broker holds (probed state) with the model.
func (s *Sim) restoredCheck() {
	m := s.M
	srv := s.B.S
	idx := srv.VerifIndexSubscriptions()
	ids := map[string]bool{}
	for _, id := range s.Opt.ClientIDs {
		ids[id] = true
	}
	for id := range idx {
		ids[id] = true
	}
	for id := range m.Sessions {
		ids[id] = true
	}
	sorted := make([]string, 0, len(ids))
	for id := range ids {
		sorted = append(sorted, id)
	}
	sort.Strings(sorted)
	maxExp := m.sessionExpiryCap(0xFFFFFFFF)
	for _, id := range sorted {
		t := m.Sessions[id]
		live := t != nil && t.persistent()
		cl, have := srv.Clients.Get(id)
		risk := fmt.Sprint(s.anyCollisionRisk(id))
		switch {
		case live && !have:
			m.flag("C20/session-not-restored", map[string]string{"v5": fmt.Sprint(t.Ver == 5), "id_collision_risk": risk}, "session %q (MQTT %d, expiry %d) is missing after restart %d", id, t.Ver, t.Expiry, s.Restarts)
			continue
		case !live && have:
			m.flag("C20/session-resurrected", map[string]string{"id_collision_risk": risk}, "a session for %q exists after restart %d although the model's session had ended", id, s.Restarts)
		}
		if live {
			m.count("sessions_restored_checked")
			want := maxExp
			if t.Ver == 5 {
				want = t.Expiry
			}
			got := srv.Options.Capabilities.MaximumSessionExpiryInterval
			if cl.Properties.ProtocolVersion == 5 && cl.Properties.Props.SessionExpiryIntervalFlag {
				got = cl.Properties.Props.SessionExpiryInterval
			}
			if got != want {
				m.flag("C20/session-expiry-setting", map[string]string{"v5": fmt.Sprint(t.Ver == 5)}, "session %q restored with an effective expiry of %d s, it was established with %d s (MQTT %d)", id, got, want, t.Ver)
			}
		}
		// subscriptions in the topic index
		wantSubs := map[string]*MSub{}
		if live {
			wantSubs = t.Subs
		}
		gotF := map[string]bool{}
		for _, f := range idx[id] {
			gotF[f] = true
		}
		var missing, extra []string
		for f := range wantSubs {
			if !gotF[f] {
				missing = append(missing, f)
			}
		}
		for f := range gotF {
			if _, ok := wantSubs[f]; !ok {
				extra = append(extra, f)
			}
		}
		sort.Strings(missing)
		sort.Strings(extra)
		if len(missing)+len(extra) > 0 {
			coll := false
			for _, f := range append(append([]string{}, missing...), extra...) {
				if s.keyCollision(id, f) {
					coll = true
				}
			}
			m.flag("C20/subscriptions-differ", map[string]string{"missing": fmt.Sprint(len(missing) > 0), "extra": fmt.Sprint(len(extra) > 0), "session_live": fmt.Sprint(live), "key_collision": fmt.Sprint(coll || s.anyCollisionRisk(id))},
				"after restart %d client %q: subscriptions missing from the index %v, present without a model subscription %v", s.Restarts, id, missing, extra)
			// one finding per cause: continue the history against what the broker really holds
			if live {
				for _, f := range missing {
					delete(t.Subs, f)
				}
				t.Taint["restore_mismatch"] = true
			}
		}
		if live && have {
			m.count("subscriptions_restored_checked")
			cs := cl.State.Subscriptions.GetAll()
			for f, w := range wantSubs {
				g, ok := cs[f]
				if !ok {
					if gotF[f] {
						m.flag("C20/subscription-not-in-session", nil, "after restart %d: %q is in the topic index for %q but not in the client's own subscription list", s.Restarts, f, id)
					}
					continue
				}
				id2 := 0
				if w.ID > 0 {
					id2 = w.ID
				}
				if g.Qos != minb(w.QoS, m.maxQoS()) || g.NoLocal != w.NL || g.RetainAsPublished != w.RAP || g.RetainHandling != w.RH || g.Identifier != id2 {
					m.flag("C20/subscription-options", map[string]string{"key_collision": fmt.Sprint(s.keyCollision(id, f) || s.anyCollisionRisk(id))}, "after restart %d: subscription %q of %q restored as qos=%d nl=%v rap=%v rh=%d id=%d, model qos=%d nl=%v rap=%v rh=%d id=%d",
						s.Restarts, f, id, g.Qos, g.NoLocal, g.RetainAsPublished, g.RetainHandling, g.Identifier, minb(w.QoS, m.maxQoS()), w.NL, w.RAP, w.RH, id2)
				}
			}
			// in-flight messages
			type ifr struct {
				payload string
				rel     bool
				pid     uint16
			}
			var wantIF, gotIF []ifr
			for _, o := range t.Out {
				wantIF = append(wantIF, ifr{o.M.ID, o.Pubrec, o.PID})
			}
			for _, pk := range cl.VerifInflight() {
				if pk.FixedHeader.Type == packets.Pubrec {
					continue // state of the client's own QoS 2 publish, not an outbound message
				}
				if pk.FixedHeader.Type == packets.Publish && len(pk.Payload) == 0 {
					continue // empty-payload messages carry no token and are not tracked by the model
				}
				if pk.FixedHeader.Type == packets.Pubrel && t.OtherQ2[pk.PacketID] {
					tracked := false
					for _, o := range t.Out {
						if o.PID == pk.PacketID {
							tracked = true
						}
					}
					if !tracked {
						continue // PUBREL of an untracked (empty payload) QoS 2 delivery
					}
				}
				gotIF = append(gotIF, ifr{msgIDOf(pk.Payload), pk.FixedHeader.Type == packets.Pubrel, pk.PacketID})
			}
			ok := len(wantIF) == len(gotIF)
			used := make([]bool, len(gotIF))
			for _, w := range wantIF {
				found := false
				for gi, g := range gotIF {
					if used[gi] || g.rel != w.rel || (!w.rel && g.payload != w.payload) || (w.pid != 0 && g.pid != w.pid) {
						continue
					}
					used[gi], found = true, true
					break
				}
				if !found {
					ok = false
				}
			}
			if !ok {
				t.Taint["restore_mismatch"] = true
				m.flag("C20/inflight-differ", map[string]string{"v5": fmt.Sprint(t.Ver == 5)}, "after restart %d session %q: restored in-flight records {payload pubrel id} %v, model's unacknowledged messages %v", s.Restarts, id, gotIF, wantIF)
			}
			if len(wantIF) > 0 {
				m.count("inflight_restored_checked")
			}
		}
	}
	// retained messages
	got := map[string]string{}
	for topic, pk := range srv.Topics.Retained.GetAll() {
		got[topic] = msgIDOf(pk.Payload)
	}
	want := map[string]string{}
	for topic, rm := range m.Retained {
		want[topic] = rm.ID
	}
	if len(want) > 0 {
		m.count("retained_restored_checked")
	}
	var diffs []string
	for topic, w := range want {
		if got[topic] != w {
			diffs = append(diffs, fmt.Sprintf("%s: restored %q, model %q", topic, got[topic], w))
		}
	}
	for topic, g := range got {
		if _, ok := want[topic]; !ok && !strings.HasPrefix(topic, "$SYS") {
			diffs = append(diffs, fmt.Sprintf("%s: restored %q, model has none", topic, g))
		}
	}
	sort.Strings(diffs)
	if len(diffs) > 0 {
		m.flag("C20/retained-differ", nil, "after restart %d: %s", s.Restarts, strings.Join(diffs, "; "))
	}
}

