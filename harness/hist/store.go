package hist

import (
	"fmt"
	"sort"
	"strings"
	"sync"
	"time"

	mqtt "github.com/mochi-mqtt/server/v2"
	"github.com/mochi-mqtt/server/v2/packets"
	"github.com/mochi-mqtt/server/v2/system"

	"verif/harness/eng"
	rc "verif/harness/refcodec"
)

// opRestart shuts the broker down in an orderly way and starts a new one on the same store
// (a restart is a no-op for the model's persistent state: sessions, subscriptions, retained
// messages and unacknowledged in-flight messages carry over).
func (s *Sim) opRestart() {
	m := s.M
	if s.Opt.StoreOpen == nil {
		m.count("restart_skipped_no_store")
		return
	}
	for _, sl := range s.Slots {
		if sl.connected {
			s.opDisconnect(&Op{Kind: "disconnect", C: sl.Idx, How: "drop"})
			s.settle()
			s.endStep()
		}
	}
	m.count("restarts")
	s.Restarts++
	pre := snapshotMessages(s.B.S)
	_ = s.B.S.Close() // stops the hooks: the store is closed cleanly
	s.B.Shutdown()
	s.B = s.makeBroker()
	if err := s.B.S.VerifReadStore(); err != nil {
		m.flag("C20/read-store-error", nil, "loading the store after restart %d failed: %v", s.Restarts, err)
	}
	s.evIdx, s.flushIdx, s.lastInflightDropped, s.lastMsgsDropped = 0, 0, 0, 0
	s.reported, s.sentBy = nil, nil
	for _, sl := range s.Slots {
		sl.Conn = nil
		sl.Exp = nil
	}
	// the new broker stamps restored sessions as disconnected now; delayed wills live in memory only
	for _, t := range m.Sessions {
		if !t.Abandoned {
			t.DiscAt = m.Now
		}
	}
	x := m.ext()
	for id, pw := range x.pendingWill {
		m.setWillDisp(pw.W, "lost_by_restart")
		delete(x.pendingWill, id)
	}
	s.restoredCheck()
	s.compareMessages(pre, snapshotMessages(s.B.S))
	if s.Opt.AfterRestart != nil {
		s.Opt.AfterRestart(s)
	}
}

// persistent reports whether a (disconnected) model session outlives its connection.
func (t *Session) persistent() bool {
	if t.Abandoned {
		return false
	}
	if t.Ver < 5 {
		return !t.CleanV3
	}
	return t.Expiry > 0
}

// keyCollision: do two different (client id, filter) pairs of this case concatenate to the same "id:filter"?
func (s *Sim) keyCollision(id, filter string) bool {
	want := id + ":" + filter
	for _, a := range s.Opt.ClientIDs {
		if a == id {
			continue
		}
		if strings.HasPrefix(want, a+":") {
			return true // some other id is a prefix such that a + ":" + rest == want
		}
	}
	return false
}

func (s *Sim) anyCollisionRisk(id string) bool {
	for _, a := range s.Opt.ClientIDs {
		if a != id && (strings.HasPrefix(a, id+":") || strings.HasPrefix(id, a+":")) {
			return true
		}
	}
	return false
}

// restoredCheck compares what the restarted broker holds (probed state) with the model.
func (s *Sim) restoredCheck() {
	m := s.M
	srv := s.B.S
	idx := srv.VerifIndexSubscriptions()
	ids := map[string]bool{}
	for _, id := range s.Opt.ClientIDs {
		ids[id] = true
	}
	for id := range idx {
		ids[id] = true
	}
	for id := range m.Sessions {
		ids[id] = true
	}
	sorted := make([]string, 0, len(ids))
	for id := range ids {
		sorted = append(sorted, id)
	}
	sort.Strings(sorted)
	maxExp := m.sessionExpiryCap(0xFFFFFFFF)
	for _, id := range sorted {
		t := m.Sessions[id]
		live := t != nil && t.persistent()
		cl, have := srv.Clients.Get(id)
		risk := fmt.Sprint(s.anyCollisionRisk(id))
		switch {
		case live && !have:
			m.flag("C20/session-not-restored", map[string]string{"v5": fmt.Sprint(t.Ver == 5), "id_collision_risk": risk}, "session %q (MQTT %d, expiry %d) is missing after restart %d", id, t.Ver, t.Expiry, s.Restarts)
			continue
		case !live && have:
			m.flag("C20/session-resurrected", map[string]string{"id_collision_risk": risk}, "a session for %q exists after restart %d although the model's session had ended", id, s.Restarts)
		}
		if live {
			m.count("sessions_restored_checked")
			want := maxExp
			if t.Ver == 5 {
				want = t.Expiry
			}
			got := srv.Options.Capabilities.MaximumSessionExpiryInterval
			if cl.Properties.ProtocolVersion == 5 && cl.Properties.Props.SessionExpiryIntervalFlag {
				got = cl.Properties.Props.SessionExpiryInterval
			}
			if got != want {
				m.flag("C20/session-expiry-setting", map[string]string{"v5": fmt.Sprint(t.Ver == 5)}, "session %q restored with an effective expiry of %d s, it was established with %d s (MQTT %d)", id, got, want, t.Ver)
			}
		}
		// subscriptions in the topic index
		wantSubs := map[string]*MSub{}
		if live {
			wantSubs = t.Subs
		}
		gotF := map[string]bool{}
		for _, f := range idx[id] {
			gotF[f] = true
		}
		var missing, extra []string
		for f := range wantSubs {
			if !gotF[f] {
				missing = append(missing, f)
			}
		}
		for f := range gotF {
			if _, ok := wantSubs[f]; !ok {
				extra = append(extra, f)
			}
		}
		sort.Strings(missing)
		sort.Strings(extra)
		if len(missing)+len(extra) > 0 {
			coll := false
			for _, f := range append(append([]string{}, missing...), extra...) {
				if s.keyCollision(id, f) {
					coll = true
				}
			}
			m.flag("C20/subscriptions-differ", map[string]string{"missing": fmt.Sprint(len(missing) > 0), "extra": fmt.Sprint(len(extra) > 0), "session_live": fmt.Sprint(live), "key_collision": fmt.Sprint(coll || s.anyCollisionRisk(id))},
				"after restart %d client %q: subscriptions missing from the index %v, present without a model subscription %v", s.Restarts, id, missing, extra)
			// one finding per cause: continue the history against what the broker really holds
			if live {
				for _, f := range missing {
					delete(t.Subs, f)
				}
				t.Taint["restore_mismatch"] = true
			}
		}
		if live && have {
			m.count("subscriptions_restored_checked")
			cs := cl.State.Subscriptions.GetAll()
			for f, w := range wantSubs {
				g, ok := cs[f]
				if !ok {
					if gotF[f] {
						m.flag("C20/subscription-not-in-session", nil, "after restart %d: %q is in the topic index for %q but not in the client's own subscription list", s.Restarts, f, id)
					}
					continue
				}
				id2 := 0
				if w.ID > 0 {
					id2 = w.ID
				}
				if g.Qos != minb(w.QoS, m.maxQoS()) || g.NoLocal != w.NL || g.RetainAsPublished != w.RAP || g.RetainHandling != w.RH || g.Identifier != id2 {
					m.flag("C20/subscription-options", map[string]string{"key_collision": fmt.Sprint(s.keyCollision(id, f) || s.anyCollisionRisk(id))}, "after restart %d: subscription %q of %q restored as qos=%d nl=%v rap=%v rh=%d id=%d, model qos=%d nl=%v rap=%v rh=%d id=%d",
						s.Restarts, f, id, g.Qos, g.NoLocal, g.RetainAsPublished, g.RetainHandling, g.Identifier, minb(w.QoS, m.maxQoS()), w.NL, w.RAP, w.RH, id2)
				}
			}
			// in-flight messages
			type ifr struct {
				payload string
				rel     bool
				pid     uint16
				relaxed bool // want: held back by Receive Maximum and released since (see the recorded deferred-release defect)
			}
			var wantIF, gotIF []ifr
			for _, o := range t.Out {
				wantIF = append(wantIF, ifr{o.M.ID, o.Pubrec, o.PID, t.Taint["deferred"] && o.Sent})
			}
			for _, pk := range cl.VerifInflight() {
				if pk.FixedHeader.Type == packets.Pubrec {
					continue // state of the client's own QoS 2 publish, not an outbound message
				}
				if pk.FixedHeader.Type == packets.Publish && len(pk.Payload) == 0 {
					continue // empty-payload messages carry no token and are not tracked by the model
				}
				if pk.FixedHeader.Type == packets.Pubrel && t.OtherQ2[pk.PacketID] {
					tracked := false
					for _, o := range t.Out {
						if o.PID == pk.PacketID {
							tracked = true
						}
					}
					if !tracked {
						continue // PUBREL of an untracked (empty payload) QoS 2 delivery
					}
				}
				gotIF = append(gotIF, ifr{msgIDOf(pk.Payload), pk.FixedHeader.Type == packets.Pubrel, pk.PacketID, false})
			}
			match := func(relax bool) bool {
				ok := true
				used := make([]bool, len(gotIF))
				for _, w := range wantIF {
					found := false
					for gi, g := range gotIF {
						if used[gi] {
							continue
						}
						if relax && w.relaxed {
							// the store may still hold the PUBLISH record although the exchange has moved on
							if g.payload != w.payload && !(g.rel && w.rel && g.pid == w.pid) {
								continue
							}
						} else if g.rel != w.rel || (!w.rel && g.payload != w.payload) || (w.pid != 0 && g.pid != w.pid) {
							continue
						}
						used[gi], found = true, true
						break
					}
					if !found {
						ok = false
					}
				}
				for gi, g := range gotIF {
					if !used[gi] && !(relax && !g.rel && (t.StaleDeferred[g.payload] || (t.Taint["deferred"] && t.EverOwed[g.payload]))) {
						ok = false
					}
				}
				return ok
			}
			if !match(false) {
				t.Taint["restore_mismatch"] = true
				m.flag("C20/inflight-differ", map[string]string{"v5": fmt.Sprint(t.Ver == 5), "only_released_deferred_records_differ": fmt.Sprint(match(true))},
					"after restart %d session %q: restored in-flight records {payload pubrel id} %v, model's unacknowledged messages {payload pubrel id released-after-deferral} %v", s.Restarts, id, gotIF, wantIF)
			}
			if len(wantIF) > 0 {
				m.count("inflight_restored_checked")
			}
		}
	}
	// retained messages
	got := map[string]string{}
	for topic, pk := range srv.Topics.Retained.GetAll() {
		got[topic] = msgIDOf(pk.Payload)
	}
	want := map[string]string{}
	for topic, rm := range m.Retained {
		want[topic] = rm.ID
	}
	if len(want) > 0 {
		m.count("retained_restored_checked")
	}
	var diffs []string
	for topic, w := range want {
		if got[topic] != w {
			diffs = append(diffs, fmt.Sprintf("%s: restored %q, model %q", topic, got[topic], w))
		}
	}
	for topic, g := range got {
		if _, ok := want[topic]; !ok && !strings.HasPrefix(topic, "$SYS") {
			diffs = append(diffs, fmt.Sprintf("%s: restored %q, model has none", topic, g))
		}
	}
	sort.Strings(diffs)
	if len(diffs) > 0 {
		m.flag("C20/retained-differ", nil, "after restart %d: %s", s.Restarts, strings.Join(diffs, "; "))
	}
}

// ---------------------------------------------------------------- crash points (C21)

// CrashProxy wraps a storage hook: the first Limit storage writes are forwarded, every later one is
// swallowed (the process "died" before it reached the store). Multi-filter subscribe/unsubscribe
// events are split into one write per filter. Reads are always forwarded.
type CrashProxy struct {
	mqtt.Hook
	Limit   int
	mu      sync.Mutex
	n       int
	crashed bool
	Log     []string // kind of every write event seen (forwarded or not)
	OnCrash func()   // called once, when the first write is swallowed
}

func (p *CrashProxy) pass(kind string) bool {
	p.mu.Lock()
	defer p.mu.Unlock()
	p.Log = append(p.Log, kind)
	if p.crashed {
		return false
	}
	if p.Limit >= 0 && p.n >= p.Limit {
		p.crashed = true
		if p.OnCrash != nil {
			p.OnCrash()
		}
		return false
	}
	p.n++
	return true
}

func (p *CrashProxy) Crashed() bool { p.mu.Lock(); defer p.mu.Unlock(); return p.crashed }
func (p *CrashProxy) Writes() int   { p.mu.Lock(); defer p.mu.Unlock(); return len(p.Log) }

func (p *CrashProxy) OnSessionEstablished(cl *mqtt.Client, pk packets.Packet) {
	if p.pass("session-established") {
		p.Hook.OnSessionEstablished(cl, pk)
	}
}
func (p *CrashProxy) OnDisconnect(cl *mqtt.Client, err error, expire bool) {
	if p.pass("disconnect") {
		p.Hook.OnDisconnect(cl, err, expire)
	}
}
func (p *CrashProxy) OnSubscribed(cl *mqtt.Client, pk packets.Packet, codes []byte) {
	for i := range pk.Filters {
		if p.pass("subscribed") {
			one := pk
			one.Filters = pk.Filters[i : i+1]
			p.Hook.OnSubscribed(cl, one, codes[i:i+1])
		}
	}
}
func (p *CrashProxy) OnUnsubscribed(cl *mqtt.Client, pk packets.Packet) {
	for i := range pk.Filters {
		if p.pass("unsubscribed") {
			one := pk
			one.Filters = pk.Filters[i : i+1]
			p.Hook.OnUnsubscribed(cl, one)
		}
	}
}
func (p *CrashProxy) OnRetainMessage(cl *mqtt.Client, pk packets.Packet, r int64) {
	if p.pass("retain") {
		p.Hook.OnRetainMessage(cl, pk, r)
	}
}
func (p *CrashProxy) OnQosPublish(cl *mqtt.Client, pk packets.Packet, sent int64, resends int) {
	if p.pass("qos-publish") {
		p.Hook.OnQosPublish(cl, pk, sent, resends)
	}
}
func (p *CrashProxy) OnQosComplete(cl *mqtt.Client, pk packets.Packet) {
	if p.pass("qos-complete") {
		p.Hook.OnQosComplete(cl, pk)
	}
}
func (p *CrashProxy) OnQosDropped(cl *mqtt.Client, pk packets.Packet) {
	if p.pass("qos-dropped") {
		p.Hook.OnQosDropped(cl, pk)
	}
}
func (p *CrashProxy) OnClientExpired(cl *mqtt.Client) {
	if p.pass("client-expired") {
		p.Hook.OnClientExpired(cl)
	}
}
func (p *CrashProxy) OnRetainedExpired(topic string) {
	if p.pass("retained-expired") {
		p.Hook.OnRetainedExpired(topic)
	}
}
func (p *CrashProxy) OnWillSent(cl *mqtt.Client, pk packets.Packet) {
	if p.pass("will-sent") {
		p.Hook.OnWillSent(cl, pk)
	}
}
func (p *CrashProxy) OnSysInfoTick(info *system.Info) {
	if !p.Crashed() {
		p.Hook.OnSysInfoTick(info)
	}
}

// CrashRestart models the death of the broker process at the crash point reached by the proxy and a
// restart on the store as it is: the dying broker's remaining writes are swallowed, a new broker with a
// fresh, unwrapped hook loads the store, and what it holds is compared with what had been acknowledged.
// prev/cur are the model before and after the step during which the crash happened.
func (s *Sim) CrashRestart(probeTopics []string) {
	m := s.M
	prev, cur := s.PrevSnap, s.CurSnap
	for _, sl := range s.Slots {
		if sl.connected && sl.Conn != nil && !sl.Conn.Done() {
			cl, ok := s.B.S.Clients.Get(sl.ClientID)
			if !ok || cl.Net.Remote != sl.Conn.Name {
				who := "nobody"
				if ok {
					who = cl.Net.Remote
				}
				m.flag("C14/live-connection-not-registered", map[string]string{"registered": fmt.Sprint(ok)}, "slot %d (%s, %s) holds an open, served connection but the broker's client map has %s under that id", sl.Idx, sl.ClientID, sl.Conn.Name, who)
				sl.Conn.MC.CloseByClient() // otherwise Close() below waits for it forever
			}
		}
	}
	// what the client of the crashing step had been told before the first write was lost
	ackedInStep := false
	crashSeq := s.CrashSeq.Load()
	if op := s.curOp; op != nil && crashSeq > 0 && op.C < len(s.Slots) && s.Slots[op.C].Conn != nil {
		for _, rp := range s.Slots[op.C].Conn.Inbox {
			if rp.Seq <= s.stepStartSeq || rp.Seq >= crashSeq {
				continue
			}
			switch rp.P.Type {
			case rc.PUBACK, rc.PUBREC:
				if rp.P.Reason < 0x80 {
					ackedInStep = true
				}
			case rc.SUBACK:
				ackedInStep = true
			}
		}
	}
	stepMsg := fmt.Sprintf("m%d", s.nmsg)
	_ = s.B.S.Close() // writes are swallowed by the proxy; the database itself is closed cleanly
	s.B.Shutdown()
	s.Opt.WrapStore = nil
	s.B = s.makeBroker()
	if err := s.B.S.VerifReadStore(); err != nil {
		m.flag("C21/read-store-error", nil, "loading the store after the crash failed: %v", err)
		return
	}
	for _, sl := range s.Slots {
		sl.Conn, sl.Exp, sl.connected = nil, nil, false
	}
	if prev == nil || cur == nil {
		return
	}
	srv := s.B.S
	idx := srv.VerifIndexSubscriptions()
	ids := map[string]bool{}
	for id := range prev.Sessions {
		ids[id] = true
	}
	for id := range cur.Sessions {
		ids[id] = true
	}
	sorted := make([]string, 0, len(ids))
	for id := range ids {
		sorted = append(sorted, id)
	}
	sort.Strings(sorted)
	var ended []string
	for _, id := range sorted {
		p, c := prev.Sessions[id], cur.Sessions[id]
		_, hadP := prev.Sessions[id]
		_, hadC := cur.Sessions[id]
		if hadP && hadC && p.Persistent && c.Persistent {
			m.count("crash_sessions_checked")
			got := map[string]bool{}
			for _, f := range idx[id] {
				got[f] = true
			}
			for f := range p.Subs {
				if c.Subs[f] && !got[f] {
					m.flag("C21/acknowledged-state-lost", map[string]string{"what": "subscription", "key_collision": fmt.Sprint(s.keyCollision(id, f) || s.anyCollisionRisk(id))},
						"crash during step %d: subscription %q of session %q was acknowledged before the step and not removed in it, but is missing after the restart", s.StoppedAt, f, id)
				} else if c.Subs[f] {
					m.count("crash_subscriptions_survived")
				}
			}
			gotIF := map[string]bool{}
			if cl, ok := srv.Clients.Get(id); ok {
				for _, pk := range cl.VerifInflight() {
					gotIF[msgIDOf(pk.Payload)] = true
				}
				// a PUBREL record has no payload: accept it for any owed message with that state
				for _, pk := range cl.VerifInflight() {
					if pk.FixedHeader.Type == packets.Pubrel {
						gotIF["*pubrel"] = true
					}
				}
			}
			for mid := range p.Out {
				if !c.Out[mid] {
					continue
				}
				if gotIF[mid] || gotIF["*pubrel"] {
					m.count("crash_inflight_survived")
					continue
				}
				m.flag("C21/acknowledged-state-lost", map[string]string{"what": "in-flight message", "session_connected": fmt.Sprint(c.Connected)},
					"crash during step %d: message %s was owed to session %q before and after the step, but is not among its in-flight messages after the restart", s.StoppedAt, mid, id)
			}
		}
		endedP := !hadP || !p.Persistent
		endedC := !hadC || !c.Persistent
		if endedP && endedC {
			ended = append(ended, id)
		}
	}
	for topic, mid := range prev.Retained {
		if cur.Retained[topic] != mid {
			continue
		}
		pk, ok := srv.Topics.Retained.Get(topic)
		if !ok || msgIDOf(pk.Payload) != mid {
			m.flag("C21/acknowledged-state-lost", map[string]string{"what": "retained message"}, "crash during step %d: retained message %s on %q was acknowledged before the step and not replaced in it, but after the restart the topic holds %q", s.StoppedAt, mid, topic, msgIDOf(pk.Payload))
		} else {
			m.count("crash_retained_survived")
		}
	}
	// finer than step granularity: the crashing step's own request was acknowledged before the first lost write
	if op := s.curOp; ackedInStep && op != nil {
		m.count("crash_acknowledged_within_step")
		a := map[string]string{"acked_in_crashing_step": "true"}
		switch op.Kind {
		case "publish":
			if op.Retain && !op.Empty && cur.Retained[op.Topic] == stepMsg {
				a["what"] = "retained message"
				if pk, ok := srv.Topics.Retained.Get(op.Topic); !ok || msgIDOf(pk.Payload) != stepMsg {
					m.flag("C21/acknowledged-state-lost", a, "crash during step %d: the retained publish %s on %q had been acknowledged to its publisher before the first storage write was lost, but after the restart the topic holds %q", s.StoppedAt, stepMsg, op.Topic, msgIDOf(pk.Payload))
				}
			}
			for id, c := range cur.Sessions {
				if !c.Persistent || !c.Out[stepMsg] {
					continue
				}
				found := false
				if cl, ok := srv.Clients.Get(id); ok {
					for _, pk := range cl.VerifInflight() {
						if msgIDOf(pk.Payload) == stepMsg {
							found = true
						}
					}
				}
				if !found {
					b := map[string]string{"acked_in_crashing_step": "true", "what": "in-flight message"}
					m.flag("C21/acknowledged-state-lost", b, "crash during step %d: publish %s had been acknowledged to its publisher before the first storage write was lost, but the copy owed to session %q is missing after the restart", s.StoppedAt, stepMsg, id)
				}
			}
		case "subscribe":
			id := s.Slots[op.C].ClientID
			if c, ok := cur.Sessions[id]; ok && c.Persistent {
				got := map[string]bool{}
				for _, f := range idx[id] {
					got[f] = true
				}
				for _, f := range op.Filters {
					if c.Subs[f.Filter] && !got[f.Filter] {
						a["what"] = "subscription"
						m.flag("C21/acknowledged-state-lost", a, "crash during step %d: the SUBACK for %q (session %q) had been received before the first storage write was lost, but the subscription is missing after the restart", s.StoppedAt, f.Filter, id)
					}
				}
			}
		}
	}
	// resurrection probe: connections with clean start 1 on ids whose session had ended must receive nothing
	var probes []*eng.Client
	for _, id := range ended {
		c := s.B.Attach()
		c.Version = 5
		c.Send(&rc.Packet{Type: rc.CONNECT, ProtoLevel: 5, ProtoName: "MQTT", ClientID: id, ConnectFlags: 2}, rc.FormAuto)
		probes = append(probes, c)
	}
	pub := s.B.Attach()
	pub.Version = 5
	pub.Send(&rc.Packet{Type: rc.CONNECT, ProtoLevel: 5, ProtoName: "MQTT", ClientID: "crash-probe-publisher", ConnectFlags: 2}, rc.FormAuto)
	s.B.Quiesce(10 * time.Second)
	for _, t := range probeTopics {
		pub.Send(&rc.Packet{Type: rc.PUBLISH, Version: 5, Topic: t, Payload: []byte("probe")}, rc.FormAuto)
	}
	s.B.Quiesce(10 * time.Second)
	for i, c := range probes {
		m.count("crash_clean_start_probes")
		for _, rp := range c.Drain() {
			if rp.P.Type == rc.PUBLISH {
				m.flag("C21/resurrected-subscription", map[string]string{"what": "delivery-to-clean-start"}, "crash during step %d: a clean-start connection for %q, whose session had ended before the crash, received a message on %q after the restart (index holds %v for that id)", s.StoppedAt, ended[i], rp.P.Topic, idx[ended[i]])
				break
			}
		}
	}
}

// snapshotMessages renders every retained message and every in-flight PUBLISH/PUBREL the broker holds in memory, field
// by field (what a client could observe of it later: payload, QoS, retain flag, origin, creation and expiry times and
// the publish properties), keyed by "retained <topic>" / "inflight <client id> <packet id>".
func snapshotMessages(srv *mqtt.Server) map[string]map[string]string {
	out := map[string]map[string]string{}
	render := func(pk packets.Packet) map[string]string {
		pr := pk.Properties
		return map[string]string{
			"type": fmt.Sprint(pk.FixedHeader.Type), "qos": fmt.Sprint(pk.FixedHeader.Qos), "retain": fmt.Sprint(pk.FixedHeader.Retain),
			"topic": pk.TopicName, "payload": string(pk.Payload), "origin": pk.Origin, "created": fmt.Sprint(pk.Created), "expiry": fmt.Sprint(pk.Expiry),
			"message_expiry_interval": fmt.Sprint(pr.MessageExpiryInterval), "content_type": pr.ContentType, "response_topic": pr.ResponseTopic,
			"correlation_data": fmt.Sprintf("%x", pr.CorrelationData), "user_properties": fmt.Sprint(pr.User),
			"payload_format": fmt.Sprint(pr.PayloadFormat, pr.PayloadFormatFlag), "subscription_identifiers": fmt.Sprint(pr.SubscriptionIdentifier),
		}
	}
	for topic, pk := range srv.Topics.Retained.GetAll() {
		if !strings.HasPrefix(topic, "$SYS") {
			out["retained "+topic] = render(pk)
		}
	}
	for id, cl := range srv.Clients.GetAll() {
		for _, pk := range cl.VerifInflight() {
			if pk.FixedHeader.Type == packets.Publish || pk.FixedHeader.Type == packets.Pubrel {
				out[fmt.Sprintf("inflight %s %d", id, pk.PacketID)] = render(pk)
			}
		}
	}
	return out
}

// compareMessages: whatever message the broker held before the orderly shutdown and holds again after the restart must
// be the same message in every field (which messages must be there at all is decided against the model in restoredCheck).
func (s *Sim) compareMessages(pre, post map[string]map[string]string) {
	m := s.M
	keys := make([]string, 0, len(pre))
	for k := range pre {
		keys = append(keys, k)
	}
	sort.Strings(keys)
	for _, k := range keys {
		a, b := pre[k], post[k]
		if b == nil {
			continue
		}
		m.count("restored_messages_compared_field_by_field")
		var diff []string
		for f, v := range a {
			if b[f] != v {
				if f == "expiry" && (a["type"] == fmt.Sprint(packets.Pubrel) || v == "-1") {
					continue // a PUBREL record carries no message any more; -1 is the in-memory "held back by Receive Maximum" marker, not a time
				}
				diff = append(diff, fmt.Sprintf("%s: %q before, %q after", f, v, b[f]))
			}
		}
		if len(diff) > 0 {
			sort.Strings(diff)
			fields := make([]string, len(diff))
			for i, d := range diff {
				fields[i] = d[:strings.Index(d, ":")]
			}
			m.flag("C20/restored-message-differs", map[string]string{"kind": strings.Fields(k)[0], "fields": strings.Join(fields, ",")},
				"after restart %d: %s differs from what the broker held before the shutdown: %s", s.Restarts, k, strings.Join(diff, "; "))
		}
	}
}
