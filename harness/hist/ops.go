package hist

import (
	"fmt"
	"sort"
	"strings"

	"verif/harness/eng"
	rc "verif/harness/refcodec"
	"verif/harness/refmatch"
)

func ok00(c byte) bool   { return c == 0 }
func okLt80(c byte) bool { return c < 0x80 }
func okGe80(c byte) bool { return c >= 0x80 }
func okIs(v ...byte) func(byte) bool {
	return func(c byte) bool {
		for _, x := range v {
			if x == c {
				return true
			}
		}
		return false
	}
}

// ---------------------------------------------------------------- connect

func (s *Sim) opConnect(op *Op) {
	sl := s.Slots[op.C]
	m := s.M
	if sl.connected {
		panic("connect on a connected slot")
	}
	sl.Conn = s.B.Attach()
	sl.Conn.Version = op.Ver
	sl.Ver = op.Ver
	sl.connected = true
	sl.rxCount = 0
	sl.sawConnack = false
	sl.lastDiscSeen = false
	sl.Exp = nil
	sl.Hold = op.Hold // a connect op may start with acknowledgements withheld (resends stay unacknowledged)
	sl.heldAcks = nil
	sl.aliasOut = map[uint16]string{}
	sl.aliasIn = map[uint16]string{}
	sl.inflight = map[uint16]*OutMsg{}
	sl.resumePIDs = map[uint16]bool{}
	sl.ownQ2 = map[uint16]bool{}
	sl.otherQ2 = map[uint16]bool{}
	sl.RecvMax, sl.TAM, sl.MPS, sl.RPI0 = 0, 0, 0, false
	sl.ExpectClose = false
	sl.faulted = false
	sl.stalled = false
	sl.heldQ2 = nil

	p := &rc.Packet{Type: rc.CONNECT, ProtoLevel: op.Ver, ProtoName: "MQTT", ClientID: sl.ClientID, KeepAlive: op.KeepAlive}
	if op.Ver == 3 {
		p.ProtoName = "MQIsdp"
	}
	if op.Clean {
		p.ConnectFlags |= 2
	}
	var will *Will
	if op.Will != nil {
		w := *op.Will
		will = &w
		s.nmsg++
		will.Payload = fmt.Sprintf("m%d", s.nmsg)
		p.ConnectFlags |= 4 | will.QoS<<3
		if will.Retain {
			p.ConnectFlags |= 0x20
		}
		p.WillTopic, p.WillPayload = will.Topic, []byte(will.Payload)
		if op.Ver == 5 && will.Delay > 0 {
			p.WillProps = append(p.WillProps, rc.Prop{ID: rc.PWillDelay, Num: will.Delay})
		}
		m.Msgs[will.Payload] = &Msg{ID: will.Payload, Topic: will.Topic, QoS: minb(will.QoS, m.maxQoS()), Retain: will.Retain, From: sl.ClientID, IsWill: true, Payload: []byte(will.Payload)}
	}
	var expiry uint32
	if op.Ver == 5 {
		if op.ExpirySet {
			p.Props = append(p.Props, rc.Prop{ID: rc.PSessionExpiry, Num: op.Expiry})
			expiry = m.sessionExpiryCap(op.Expiry)
		}
		if op.RecvMax > 0 {
			p.Props = append(p.Props, rc.Prop{ID: rc.PReceiveMaximum, Num: uint32(op.RecvMax)})
			sl.RecvMax = op.RecvMax
		}
		if op.TAM > 0 {
			p.Props = append(p.Props, rc.Prop{ID: rc.PTopicAliasMax, Num: uint32(op.TAM)})
			sl.TAM = op.TAM
		}
		if op.MPS > 0 {
			p.Props = append(p.Props, rc.Prop{ID: rc.PMaxPacketSize, Num: op.MPS})
			sl.MPS = op.MPS
		}
		if op.RPI0 {
			p.Props = append(p.Props, rc.Prop{ID: rc.PReqProblemInfo, Num: 0})
			sl.RPI0 = true
		}
	}
	s.clientSend(sl, p)

	// ---- model
	old := m.Sessions[sl.ClientID]
	if old != nil && old.Slot != nil && old.Slot != sl && old.Slot.connected {
		// takeover of a live connection
		os := old.Slot
		m.count("takeovers")
		os.expect(&Expect{Kind: rc.DISCONNECT, Optional: os.Ver < 5, Rule: "C14/takeover-disconnect", ReasonOK: okIs(0x8E), What: "DISCONNECT 0x8E (session taken over)", Step: m.Step, SP: -1})
		os.ExpectClose = true
		resumed := !op.Clean && !(old.CleanV3)
		s.connectionEndedModel(os, "takeover", resumed)
	}
	s.pendingWillOnConnect(sl.ClientID, op.Clean)
	present := old != nil && !old.Abandoned && !op.Clean && !(old.CleanV3 && old.Ver < 5)
	var sess *Session
	if present {
		sess = old
		m.count("sessions_resumed")
	} else {
		sess = &Session{ID: sl.ClientID, Subs: map[string]*MSub{}, InQ2: map[uint16]*Msg{}, Taint: map[string]bool{}}
		if old != nil {
			old.Abandoned = true
			// store records are keyed by client id: what the recorded deferred-release defect left behind for the old
			// session is still there for the new one
			sess.StaleDeferred = map[string]bool{}
			for k := range old.StaleDeferred {
				sess.StaleDeferred[k] = true
			}
			old.noteStale()
			for k := range old.StaleDeferred {
				sess.StaleDeferred[k] = true
			}
			if old.Taint["deferred"] || old.LeakyBefore {
				// the quota leak of the recorded findings was at work under this client id: any message once in flight
				// for it may have lost its in-memory record while its store record stays
				sess.LeakyBefore = true
				for k := range old.EverOwed {
					sess.StaleDeferred[k] = true
				}
			}
		}
		m.Sessions[sl.ClientID] = sess
	}
	sess.Ver = op.Ver
	sess.Slot = sl
	sess.CleanV3 = op.Ver < 5 && op.Clean
	sess.Expiry = expiry
	sess.WillSlot = will
	sl.Sess = sess
	sp := 0
	if present {
		sp = 1
	}
	sl.expect(&Expect{Kind: rc.CONNACK, Rule: "C13/connack", ReasonOK: ok00, SP: sp, What: fmt.Sprintf("successful CONNACK (session present %d)", sp), Step: m.Step})
	if present {
		// the broker may repeat the PUBREC of an own QoS 2 publish that is still waiting for its PUBREL (it resends its
		// whole in-flight store; harmless, the first PUBREC may have been lost with the connection)
		q2 := make([]int, 0, len(sess.InQ2))
		for id := range sess.InQ2 {
			q2 = append(q2, int(id))
		}
		sort.Ints(q2)
		for _, id := range q2 {
			sl.expect(&Expect{Kind: rc.PUBREC, PID: uint16(id), Optional: true, Rule: "C07/unsolicited-response", What: "repeated PUBREC of an own QoS 2 publish in progress", Step: m.Step, SP: -1})
		}
		late := make([]int, 0, len(sess.LateAcks))
		for id := range sess.LateAcks {
			late = append(late, int(id))
		}
		sort.Ints(late)
		for _, id := range late {
			sl.expect(&Expect{Kind: sess.LateAcks[uint16(id)], PID: uint16(id), Optional: true, Rule: "C07/unsolicited-response", What: "acknowledgement of a request made on the previous connection", Step: m.Step, SP: -1})
		}
		sess.LateAcks = nil
		// every unacknowledged message is redelivered
		for _, o := range sess.Out {
			o.Offline = false
			if o.Pubrec {
				sl.expect(&Expect{Kind: rc.PUBREL, PID: o.PID, Out: o, Rule: "C09/not-resent-after-reconnect", Attrs: map[string]string{"what": "PUBREL", "was_deferred": fmt.Sprint(o.WasDeferred)}, What: fmt.Sprintf("PUBREL id %d for %s after reconnect", o.PID, o.M.ID), Step: m.Step, SP: -1})
				sl.inflight[o.PID] = o
				sl.resumePIDs[o.PID] = true
				continue
			}
			dup := -1
			if o.Sent {
				dup = 1
			}
			e := &Expect{Kind: rc.PUBLISH, PID: o.PID, Out: o, Msg: o.M, Vars: o.Vars, Retain: o.Retain, Dup: dup, Rule: "C09/not-resent-after-reconnect",
				Attrs: map[string]string{"what": "PUBLISH", "was_deferred": fmt.Sprint(o.WasDeferred), "sent_before": fmt.Sprint(o.Sent)}, What: fmt.Sprintf("redelivery of %s (id %d)", o.M.ID, o.PID), Step: m.Step, SP: -1}
			sl.expect(e)
		}
	}
}

// ---------------------------------------------------------------- subscribe / unsubscribe

func (s *Sim) opSubscribe(op *Op) {
	sl := s.Slots[op.C]
	m := s.M
	pid := op.PID
	if pid == 0 {
		pid = sl.allocPID()
	}
	p := &rc.Packet{Type: rc.SUBSCRIBE, Version: sl.Ver, PacketID: pid, Filters: op.Filters}
	if sl.Ver == 5 && op.SubID > 0 {
		p.Props = append(p.Props, rc.Prop{ID: rc.PSubscriptionID, Num: uint32(op.SubID)})
	}
	s.clientSend(sl, p)
	e := &Expect{Kind: rc.SUBACK, PID: pid, Rule: "C07/no-response", What: fmt.Sprintf("SUBACK for %v", op.Filters), Step: m.Step, SP: -1}
	sl.expect(e)
	sess := sl.Sess
	type granted struct {
		sub     *MSub
		existed bool
	}
	var grants []granted
	for _, f := range op.Filters {
		f := f
		_, _, isShared := refmatch.SplitShare(f.Filter)
		switch {
		case !refmatch.ValidFilter(f.Filter):
			want := byte(0x8F)
			if sl.Ver < 5 {
				want = 0x80
			}
			e.Codes = append(e.Codes, okIs(want))
			e.Rule = "C30/invalid-filter-suback"
		case sl.Ver == 5 && isShared && f.NoLocal():
			e.Codes = append(e.Codes, okGe80)
		case s.Cfg.Denied(sl.ClientID, f.Filter, false):
			if sl.Ver < 5 || s.Cfg.ObscureNotAuth {
				e.Codes = append(e.Codes, okIs(0x80))
			} else {
				e.Codes = append(e.Codes, okIs(0x87))
			}
			if e.Rule == "C07/no-response" {
				e.Rule = "C17/denied-filter-suback"
			}
		default:
			g := minb(f.QoS(), m.maxQoS())
			e.Codes = append(e.Codes, okIs(g))
			if e.Rule == "C07/no-response" {
				e.Rule = "C04/granted-qos"
			}
			sub := &MSub{Filter: f.Filter, QoS: f.QoS()}
			if sl.Ver == 5 {
				sub.NL, sub.RAP, sub.RH, sub.ID = f.NoLocal(), f.RAP(), f.RH(), op.SubID
			}
			_, existed := sess.Subs[f.Filter]
			sess.Subs[f.Filter] = sub
			grants = append(grants, granted{sub, existed})
			m.count("subscriptions_granted")
		}
	}
	// retained messages for each granted filter, in filter order
	for _, g := range grants {
		_, _, isShared := refmatch.SplitShare(g.sub.Filter)
		if isShared || g.sub.RH == 2 || (g.sub.RH == 1 && g.existed) {
			continue
		}
		var topics []string
		for t := range m.Retained {
			if refmatch.Match(g.sub.Filter, t) {
				topics = append(topics, t)
			}
		}
		sort.Strings(topics)
		for _, t := range topics {
			rm := m.Retained[t]
			if s.Cfg.Denied(sl.ClientID, t, false) {
				continue
			}
			if rm.ExpAt > 0 && m.Now > rm.ExpAt && s.expiredSeenByHousekeeping(rm) {
				m.count("retained_expired_model")
				continue
			}
			q := minb(minb(rm.QoS, g.sub.QoS), m.maxQoS())
			var ids []int
			if g.sub.ID > 0 {
				ids = []int{g.sub.ID}
			}
			re := s.owe(sl.Sess, rm, []variant{{QoS: q, SubIDs: ids}}, []bool{true}, true, "C05/retained-not-sent", map[string]string{"rh": fmt.Sprint(g.sub.RH), "shape": filterShape(g.sub.Filter)})
			if re != nil && g.sub.NL && rm.From == sl.ClientID {
				// whether No Local also withholds retained messages the client published itself is not fixed by the
				// statements: delivery is neither required nor forbidden
				re.Optional = true
				if re.Out != nil {
					sl.Sess.removeOut(re.Out)
				}
				m.count("retained_own_message_under_no_local")
			}
			if re != nil && rm.ExpAt > 0 && m.Now > rm.ExpAt {
				// past its expiry but no housekeeping run has seen it yet: delivery is neither required nor forbidden
				re.Optional = true
				if re.Out != nil {
					sl.Sess.removeOut(re.Out)
				}
			}
			m.count("retained_expected")
		}
	}
}

func filterShape(f string) string {
	switch {
	case strings.HasSuffix(f, "#"):
		return "hash"
	case strings.Contains(f, "+"):
		return "plus"
	}
	return "exact"
}

func (s *Sim) opUnsubscribe(op *Op) {
	sl := s.Slots[op.C]
	m := s.M
	pid := op.PID
	if pid == 0 {
		pid = sl.allocPID()
	}
	s.clientSend(sl, &rc.Packet{Type: rc.UNSUBSCRIBE, Version: sl.Ver, PacketID: pid, Filters: op.Filters})
	e := &Expect{Kind: rc.UNSUBACK, PID: pid, Rule: "C07/no-response", What: fmt.Sprintf("UNSUBACK for %v", op.Filters), Step: m.Step, SP: -1}
	for _, f := range op.Filters {
		if _, ok := sl.Sess.Subs[f.Filter]; ok {
			delete(sl.Sess.Subs, f.Filter)
			e.Codes = append(e.Codes, okIs(0x00))
			m.count("unsubscribed_existing")
		} else {
			e.Codes = append(e.Codes, okIs(0x11))
		}
	}
	if e.Rule == "C07/no-response" && sl.Ver == 5 {
		e.Rule = "C31/unsuback-code"
	}
	sl.expect(e)
}

// ---------------------------------------------------------------- publish

func (s *Sim) opPublish(op *Op) {
	sl := s.Slots[op.C]
	m := s.M
	sess := sl.Sess
	if op.QoS > m.maxQoS() {
		op.QoS = m.maxQoS() // clients keep within the advertised Maximum QoS
	}
	if op.HeldDup {
		if len(sl.heldQ2) == 0 {
			return
		}
		op.PID, op.QoS, op.Dup = sl.heldQ2[0], 2, true
	}
	pid := op.PID
	if op.QoS > 0 && pid == 0 {
		pid = sl.allocPID()
		if op.Collide {
			// deliberately reuse an id that the broker has outstanding towards this client
			ids := make([]int, 0, len(sl.inflight))
			for k := range sl.inflight {
				ids = append(ids, int(k))
			}
			sort.Ints(ids)
			if len(ids) > 0 {
				pid = uint16(ids[0])
				sess.Taint["pid_collision"] = true
				m.count("own_publish_with_colliding_id")
			}
		}
	}
	if op.QoS == 2 && op.CollideNext && op.PID == 0 {
		// the broker assigns outbound ids 1,2,3,... per session: use the one it will hand out next
		pid = sl.maxOutPID + 1
		for sess.InQ2[pid] != nil {
			pid++ // never reuse an id of an own exchange that is still in progress
		}
		op.Hold = true
		sl.heldQ2 = append(sl.heldQ2, pid)
		m.count("own_qos2_under_next_outbound_id")
	}
	p := &rc.Packet{Type: rc.PUBLISH, Version: sl.Ver, Topic: op.Topic, QoS: op.QoS, Retain: op.Retain, Dup: op.Dup, PacketID: pid}
	// retransmission of an unreleased QoS 2 publish?
	if op.QoS == 2 {
		if prev := sess.InQ2[pid]; prev != nil && op.Dup {
			p.Payload, p.Topic, p.Retain = prev.Payload, prev.Topic, prev.Retain
			if sl.Ver == 5 {
				p.Props = prev.Props
			}
			s.clientSend(sl, p)
			sl.expect(&Expect{Kind: rc.PUBREC, PID: pid, Rule: "C08/pubrec-failure-on-retransmission", ReasonOK: okLt80, What: fmt.Sprintf("PUBREC without failure code for the DUP retransmission of %s", prev.ID), Step: m.Step, SP: -1})
			m.count("qos2_retransmissions")
			return
		}
	}
	if rm := s.Cfg.ServerRecvMax; rm > 0 && op.QoS > 0 && len(sess.InQ2) >= int(rm) {
		// a well-behaved client: as many own QoS 2 exchanges are incomplete as the broker's Receive Maximum allows, so
		// nothing that needs an acknowledgement may be started now
		op.QoS, p.QoS, p.PacketID, pid = 0, 0, 0, 0
		m.count("own_publish_downgraded_to_respect_server_receive_maximum")
	}
	msg := s.newMsg(op, sl.ClientID)
	p.Payload = msg.Payload
	if sl.Ver == 5 {
		p.Props = append(rc.Props{}, op.Props...)
		if op.MsgExp > 0 {
			p.Props = append(p.Props, rc.Prop{ID: rc.PMessageExpiry, Num: op.MsgExp})
			msg.ExpIvl = op.MsgExp
		}
		if op.Alias > 0 {
			p.Props = append(p.Props, rc.Prop{ID: rc.PTopicAlias, Num: uint32(op.Alias)})
		}
		if op.NoTopic {
			p.Topic = ""
		}
	} else {
		msg.Props = nil
	}
	s.clientSend(sl, p)
	s.modelClientPublish(sl, msg, pid, op)
}

func (s *Sim) effectiveExpiry(ivl uint32) int64 {
	max := s.Cfg.MaxMsgExpiry
	if max == 0 {
		max = 86400
	}
	if max < 0 {
		max = 0
	}
	e := int64(ivl)
	switch {
	case e == 0:
		return max
	case max == 0:
		return e
	case e < max:
		return e
	}
	return max
}

func (s *Sim) modelClientPublish(sl *Slot, msg *Msg, pid uint16, op *Op) {
	m := s.M
	sess := sl.Sess
	ackKind := byte(rc.PUBACK)
	if msg.QoS == 2 {
		ackKind = rc.PUBREC
	}
	// alias resolution / rejection is handled by the alias extension (returns false if the publish is rejected)
	if !s.inboundAlias(sl, msg, op) {
		return
	}
	if !refmatch.ValidPublishTopic(msg.Topic) {
		m.count("publish_refused_topic")
		s.refusedPublish(sl, msg, pid, ackKind, 0x90, "C07/no-response")
		return
	}
	if s.Cfg.Denied(sl.ClientID, msg.Topic, true) {
		m.count("publish_denied")
		s.refusedPublish(sl, msg, pid, ackKind, 0x87, "C07/no-response")
		return
	}
	if e := s.effectiveExpiry(msg.ExpIvl); e > 0 {
		msg.ExpAt = m.Now + e
	}
	if msg.QoS > 0 {
		what := fmt.Sprintf("%s for %s (id %d, topic %s)", rc.TypeNames[ackKind], msg.ID, pid, msg.Topic)
		sl.expect(&Expect{Kind: ackKind, PID: pid, Rule: "C07/no-response", ReasonOK: okLt80, What: what, Attrs: map[string]string{"topic": topicShape(msg.Topic)}, Step: m.Step, SP: -1})
		if msg.QoS == 2 {
			sess.InQ2[pid] = msg
			if !op.Hold {
				sl.ownQ2[pid] = true
			}
		}
	}
	s.route(msg)
}

func (s *Sim) refusedPublish(sl *Slot, msg *Msg, pid uint16, ackKind byte, code byte, rule string) {
	m := s.M
	if msg.QoS == 0 {
		return
	}
	if sl.Ver == 5 {
		sl.expect(&Expect{Kind: ackKind, PID: pid, Rule: rule, ReasonOK: okIs(code), What: fmt.Sprintf("%s with reason 0x%02x for refused publish %s on %s", rc.TypeNames[ackKind], code, msg.ID, msg.Topic), Attrs: map[string]string{"topic": topicShape(msg.Topic), "refused": "true"}, Step: m.Step, SP: -1})
		if ackKind == rc.PUBREC {
			// no PUBREL follows a failed PUBREC
		}
		return
	}
	// MQTT 3: the connection is closed
	sl.expect(&Expect{Kind: rc.DISCONNECT, Optional: true, Rule: "C07/no-response", What: "close after refused publish", Step: m.Step, SP: -1})
	sl.ExpectClose = true
	sl.CloseRule = "C07/no-response"
	s.connectionEndedModel(sl, "refused-publish", false)
}

// route performs retention and computes who is owed the message.
func (s *Sim) route(msg *Msg) {
	m := s.M
	if s.inl != nil && !msg.Inline {
		s.expectInline(msg, s.inlineCount(), false)
	}
	if msg.Retain && s.Cfg.RetainAvailable {
		if msg.Empty {
			delete(m.Retained, msg.Topic)
			m.count("retained_cleared")
		} else {
			m.Retained[msg.Topic] = msg
			m.count("retained_set")
		}
	}
	if msg.Empty {
		// an empty payload carries no identifying token: its deliveries cannot be attributed to this publish,
		// so nothing is owed or checked for it (clients still acknowledge what arrives)
		m.count("empty_payload_publishes_not_tracked")
		return
	}
	ids := make([]string, 0, len(m.Sessions))
	for id := range m.Sessions {
		ids = append(ids, id)
	}
	sort.Strings(ids)
	type memb struct {
		sess *Session
		sub  *MSub
	}
	groups := map[string][]memb{}
	hasPlain := map[string]*Expect{}
	plainOf := map[string][]*MSub{}
	for _, id := range ids {
		t := m.Sessions[id]
		if t.Abandoned {
			continue
		}
		plain, shared := t.matching(msg.Topic)
		if s.Cfg.Denied(t.ID, msg.Topic, false) {
			if len(plain)+len(shared) > 0 {
				m.count("read_denied_deliveries")
			}
			continue
		}
		for key, sub := range shared {
			groups[key] = append(groups[key], memb{t, sub})
		}
		if len(plain) == 0 {
			continue
		}
		// No Local: entitled iff some matching subscription does not exclude the message
		if msg.From == t.ID && !msg.IsWill && !msg.Inline {
			var nonNL []*MSub
			anyNL := false
			for _, sb := range plain {
				if sb.NL {
					anyNL = true
				} else {
					nonNL = append(nonNL, sb)
				}
			}
			if len(nonNL) == 0 {
				continue
			}
			if anyNL {
				// overlapping subscriptions disagree on No Local
				e := s.oweLive(t, msg, plain, nil, missRule(msg), map[string]string{"nolocal_overlap_disagree": "true"})
				if e != nil {
					hasPlain[t.ID] = e
					plainOf[t.ID] = plain
				}
				continue
			}
		}
		e := s.oweLive(t, msg, plain, nil, missRule(msg), nil)
		if e != nil {
			hasPlain[t.ID] = e
		}
		plainOf[t.ID] = plain
	}
	// shared subscriptions: exactly one member per group
	keys := make([]string, 0, len(groups))
	for k := range groups {
		keys = append(keys, k)
	}
	sort.Strings(keys)
	for _, key := range keys {
		ge := &groupExp{Key: key, Msg: msg, Observ: true}
		for _, mb := range groups[key] {
			if mb.sess.Slot == nil || !mb.sess.Slot.connected {
				ge.Observ = false
			}
		}
		for _, mb := range groups[key] {
			q := minb(minb(msg.QoS, mb.sub.QoS), m.maxQoS())
			if e := hasPlain[mb.sess.ID]; e != nil || plainOf[mb.sess.ID] != nil {
				ge.Busy++
				if e != nil {
					// selection merges the shared subscription into the client's delivery: widen what is acceptable
					e.Vars = widen(e.Vars, q, mb.sub.ID)
					if e.Out != nil {
						e.Out.Vars = e.Vars
					}
				}
				continue
			}
			if mb.sess.Slot == nil || !mb.sess.Slot.connected {
				continue // an offline member may be chosen (queued or silently dropped at QoS 0): not observable
			}
			var idsv []int
			if mb.sub.ID > 0 {
				idsv = []int{mb.sub.ID}
			}
			vars := []variant{{QoS: q, SubIDs: idsv}}
			// the same client may be a member of several matching groups: widen over those too
			for _, k2 := range keys {
				if k2 == key {
					continue
				}
				for _, mb2 := range groups[k2] {
					if mb2.sess == mb.sess {
						vars = widen(vars, minb(minb(msg.QoS, mb2.sub.QoS), m.maxQoS()), mb2.sub.ID)
					}
				}
			}
			o := &OutMsg{M: msg, Vars: vars, Retain: liveRetainFlags(mb.sess.Ver, msg.Retain, []*MSub{mb.sub})}
			o.Retain = []bool{false, true}
			if !msg.Retain || mb.sess.Ver < 5 {
				o.Retain = []bool{false}
			}
			ex := &Expect{Kind: rc.PUBLISH, Msg: msg, Out: o, Vars: vars, Retain: o.Retain, Dup: 0, Optional: true, Group: ge, Rule: "C06/no-member", What: "shared delivery of " + msg.ID, Step: m.Step, SP: -1}
			mb.sess.Slot.expect(ex)
			ge.Free = append(ge.Free, mb.sess.Slot)
		}
		m.groups = append(m.groups, ge)
		m.count("shared_group_publishes")
	}
}

func widen(vs []variant, q byte, id int) []variant {
	out := append([]variant{}, vs...)
	for _, v := range vs {
		nq := v.QoS
		if q > nq {
			nq = q
		}
		ids := append([]int{}, v.SubIDs...)
		if id > 0 {
			ids = append(ids, id)
			sort.Ints(ids)
			ids = uniqInts(ids)
		}
		out = append(out, variant{QoS: nq, SubIDs: ids})
		out = append(out, variant{QoS: nq, SubIDs: v.SubIDs})
		out = append(out, variant{QoS: v.QoS, SubIDs: ids})
	}
	return out
}

func uniqInts(a []int) []int {
	var o []int
	for i, v := range a {
		if i == 0 || v != a[i-1] {
			o = append(o, v)
		}
	}
	return o
}

// oweLive records that session t is owed msg through its non-shared subscriptions.
func (s *Sim) oweLive(t *Session, msg *Msg, subs []*MSub, extra []variant, rule string, attrs map[string]string) *Expect {
	m := s.M
	q := minb(minb(msg.QoS, maxSubQoS(subs)), m.maxQoS())
	vars := append([]variant{{QoS: q, SubIDs: subIDs(subs)}}, extra...)
	retain := liveRetainFlags(t.Ver, msg.Retain, subs)
	return s.oweVars(t, msg, vars, retain, false, rule, attrs)
}

func (s *Sim) owe(t *Session, msg *Msg, vars []variant, retain []bool, retained bool, rule string, attrs map[string]string) *Expect {
	return s.oweVars(t, msg, vars, retain, retained, rule, attrs)
}

func (s *Sim) oweVars(t *Session, msg *Msg, vars []variant, retain []bool, retained bool, rule string, attrs map[string]string) *Expect {
	m := s.M
	q := vars[0].QoS
	connected := t.Slot != nil && t.Slot.connected
	if !connected {
		if q == 0 {
			m.count("qos0_to_offline_dropped")
			return nil
		}
		if t.CleanV3 || (t.Ver == 5 && t.Expiry == 0) {
			return nil // session already ended
		}
		o := &OutMsg{M: msg, Vars: vars, Retain: retain, Offline: true, Retained: retained}
		if t.LastRecvMax > 0 && len(t.Out) >= int(t.LastRecvMax) {
			// the broker keeps applying the last connection's Receive Maximum to the offline session: this one is marked
			// "send when quota frees" like a message held back on a live connection
			o.WasDeferred = true
			t.Taint["deferred"] = true
			m.count("queued_for_offline_beyond_receive_maximum")
		}
		t.Out = append(t.Out, o)
		t.noteOwed(msg.ID)
		m.count("queued_for_offline")
		return nil
	}
	sl := t.Slot
	o := &OutMsg{M: msg, Vars: vars, Retain: retain, Retained: retained}
	e := &Expect{Kind: rc.PUBLISH, Msg: msg, Out: o, Vars: vars, Retain: retain, Dup: 0, Rule: rule, Attrs: attrs, What: fmt.Sprintf("delivery of %s on %s (from %s)", msg.ID, msg.Topic, msg.From), Step: m.Step, SP: -1}
	if q > 0 {
		t.Out = append(t.Out, o)
		t.noteOwed(msg.ID)
		// flow control: messages beyond the client's Receive Maximum are held back
		if sl.RecvMax > 0 {
			busy := 0
			for _, x := range t.Out {
				if x != o && x.Vars[0].QoS > 0 {
					busy++
				}
			}
			if busy >= int(sl.RecvMax) {
				o.Deferred = true
				o.WasDeferred = true
				e.Optional = true
				t.Taint["deferred"] = true
				m.count("deferred_by_receive_maximum")
			}
		}
	}
	m.count("deliveries_expected")
	sl.expect(e)
	return e
}

// ---------------------------------------------------------------- disconnect / connection end

func (s *Sim) opDisconnect(op *Op) {
	sl := s.Slots[op.C]
	m := s.M
	if !sl.connected {
		return
	}
	willDue := true
	switch op.How {
	case "normal":
		p := &rc.Packet{Type: rc.DISCONNECT, Version: sl.Ver}
		if sl.Ver == 5 && op.ExpirySet {
			p.Props = append(p.Props, rc.Prop{ID: rc.PSessionExpiry, Num: op.Expiry})
			if !(sl.Sess.Expiry == 0 && op.Expiry > 0) {
				sl.Sess.Expiry = m.sessionExpiryCap(op.Expiry)
			} else {
				m.count("disconnect_raise_expiry_attempt")
				willDue = true // protocol error: treated as abnormal end
				s.clientSend(sl, p)
				sl.ExpectClose = true
				s.connectionEndedModel(sl, "raise-expiry", false)
				return
			}
		}
		s.clientSend(sl, p)
		willDue = false
	case "will":
		s.clientSend(sl, &rc.Packet{Type: rc.DISCONNECT, Version: 5, Reason: 0x04})
	case "drop":
		sl.Conn.MC.CloseByClient()
	case "keepalive":
		sl.Conn.MC.FireDeadline()
	case "garbage":
		sl.Conn.SendRaw([]byte{0x00, 0x00})
	case "second-connect":
		s.clientSend(sl, &rc.Packet{Type: rc.CONNECT, ProtoLevel: sl.Ver, ProtoName: "MQTT", ClientID: sl.ClientID, ConnectFlags: 2})
	default:
		panic("disconnect how=" + op.How)
	}
	sl.ExpectClose = true
	if willDue {
		s.connectionEndedModel(sl, op.How, false)
	} else {
		if sl.Sess.WillSlot != nil {
			m.setWillDisp(sl.Sess.WillSlot, "discarded_by_normal_disconnect")
		}
		sl.Sess.WillSlot = nil
		s.connectionEndedModel(sl, "normal", false)
	}
}

// connectionEnded is called when the broker closed a connection the model did not expect to end.
func (s *Sim) connectionEnded(sl *Slot, why string, abnormal bool) {
	s.connectionEndedModel(sl, why, false)
}

// connectionEndedModel updates the model for the end of sl's connection. resumedByTakeover:
// a clean-start-0 connection is taking the session over (the session continues).
func (s *Sim) connectionEndedModel(sl *Slot, why string, resumedByTakeover bool) {
	m := s.M
	sess := sl.Sess
	if sess == nil || sess.Slot != sl {
		return
	}
	sess.Slot = nil
	sess.LastRecvMax = sl.RecvMax
	for _, e := range sl.Exp {
		if !e.Done && e.PID != 0 && (e.Kind == rc.PUBACK || e.Kind == rc.PUBREC || e.Kind == rc.PUBCOMP) {
			// the broker may have stored the acknowledgement it could not deliver and hand it over when the session resumes
			if sess.LateAcks == nil {
				sess.LateAcks = map[uint16]byte{}
			}
			sess.LateAcks[e.PID] = e.Kind
		}
	}
	sess.DiscAt = m.Now
	// messages sent but unacknowledged stay owed; expectations on the dead connection are void
	for _, e := range sl.Exp {
		if e.Kind == rc.PUBLISH && e.Out != nil && !e.Done {
			e.Out.Deferred = e.Out.Deferred && true
		}
	}
	for _, o := range sess.Out {
		_ = o
	}
	ends := sess.CleanV3 || (sess.Ver == 5 && sess.Expiry == 0)
	// will
	if w := sess.WillSlot; w != nil {
		sess.WillSlot = nil
		s.willDue(sess, w, why, ends, resumedByTakeover)
	}
	if ends && !resumedByTakeover {
		sess.Abandoned = true
		sess.Subs = map[string]*MSub{}
		sess.noteStale()
		sess.Out = nil
		m.count("sessions_ended_at_disconnect")
	}
	m.count("connection_end_" + why)
}

func (s *Sim) opPing(op *Op) {
	sl := s.Slots[op.C]
	n := op.N
	if n == 0 {
		n = 1
	}
	for i := 0; i < n; i++ {
		s.clientSend(sl, &rc.Packet{Type: rc.PINGREQ, Version: sl.Ver})
		sl.expect(&Expect{Kind: rc.PINGRESP, Rule: "C07/no-response", What: "PINGRESP", Step: s.M.Step, SP: -1})
	}
}

// onOtherPublish handles PUBLISH packets whose payload is not one of ours ($SYS values, empty payloads).
func (s *Sim) onOtherPublish(sl *Slot, rp *eng.RxPacket, topic string) {
	p := rp.P
	s.M.count("other_publish")
	if p.QoS == 1 {
		s.clientSend(sl, &rc.Packet{Type: rc.PUBACK, Version: sl.Ver, PacketID: p.PacketID})
	} else if p.QoS == 2 {
		s.clientSend(sl, &rc.Packet{Type: rc.PUBREC, Version: sl.Ver, PacketID: p.PacketID})
		if sl.otherQ2 == nil {
			sl.otherQ2 = map[uint16]bool{}
		}
		sl.otherQ2[p.PacketID] = true
		if sl.Sess != nil {
			if sl.Sess.OtherQ2 == nil {
				sl.Sess.OtherQ2 = map[uint16]bool{}
			}
			sl.Sess.OtherQ2[p.PacketID] = true
		}
	}
}

func missRule(msg *Msg) string {
	if msg.IsWill {
		return "C16/will-not-published"
	}
	return "C03/missing-delivery"
}
