package hist

import (
	"fmt"

	rc "verif/harness/refcodec"
	"verif/harness/vk"
)

// Profile parameterises the random history generator.
type Profile struct {
	Name     string
	IDs      []string // client ids; Slots maps slot -> id index
	SlotIDs  []int
	Versions []byte
	Topics   []string
	Filters  []string
	Steps    [2]int
	W        map[string]int // op weights: connect subscribe unsubscribe publish disconnect ping hold tick

	PubQoS              []byte
	SubQoS              []byte
	MaxQoS              []byte
	RetainPct           int
	EmptyPct            int // of retained publishes: empty payload
	SubIDPct            int
	NLPct               int
	RAPPct              int
	RH                  []byte
	PropsPct            int
	CleanPct            int
	Expiry              []uint32 // v5 session expiry choices (0 = absent)
	RecvMax             []uint16
	TAM                 []uint16
	RPI0Pct             int
	DenyPct             int // percentage of (client,topic,rw) triples denied
	DenySubPct          int
	RetainAvail         []bool
	HowDisc             []string
	WillPct             int
	WillDelay           []uint32
	WillTopics          []string
	TickDelta           []int64
	MultiFilter         bool
	MsgExp              []uint32
	MaxMsgExp           []int64
	MaxSessExp          []uint32
	ObscurePct          int
	AliasPct            int
	SrvTAM              []int
	BadTopicPct         int
	ConnectAllFirst     bool
	NoSelfTakeover      bool
	KeepSharedConnected bool
	DupQ2Pct            int
	CollidePct          int
	CollideNextPct      int // own QoS 2 publishes under the id the broker will assign next (PUBREL withheld), without the other collision games
	Size                []int
	SlotFilters         map[int][]string // optional per-slot filter sets
	NoWillSlots         map[int]bool
	// TakeoverSafe: connections on ids that have several slots (live takeover possible) are MQTT 5 with a
	// non-zero session expiry, i.e. never sessions that end at disconnect (avoids the recorded
	// late-cleanup race of a superseded connection, which is decided by schedule-controlled probes)
	TakeoverSafe bool
	MPS          []uint32 // client Maximum Packet Size choices (0 = absent)
	DiscExpiry   []uint32 // session expiry values carried by some normal v5 DISCONNECTs
	DiscExpPct   int
}

func pickB(r *vk.Rand, xs []byte, def byte) byte {
	if len(xs) == 0 {
		return def
	}
	return vk.Pick(r, xs)
}

type genState struct {
	connected []bool
	ver       []byte
	hold      []bool
	pendingQ2 map[int][]uint16
	pidCtr    uint16
	stalled   map[int]bool
	heldNext  map[int]int
}

// Generate builds a config and an operation list.
func (p *Profile) Generate(r *vk.Rand) (*Config, []string, []Op) {
	cfg := &Config{MaxQoS: pickB(r, p.MaxQoS, 2), RetainAvailable: true}
	if len(p.RetainAvail) > 0 {
		cfg.RetainAvailable = vk.Pick(r, p.RetainAvail)
	}
	if len(p.MaxMsgExp) > 0 {
		cfg.MaxMsgExpiry = vk.Pick(r, p.MaxMsgExp)
	}
	if len(p.MaxSessExp) > 0 {
		cfg.MaxSessionExp = vk.Pick(r, p.MaxSessExp)
	}
	if len(p.SrvTAM) > 0 {
		cfg.TopicAliasMax = vk.Pick(r, p.SrvTAM)
	}
	cfg.ObscureNotAuth = r.Chance(p.ObscurePct)
	slotIDs := make([]string, len(p.SlotIDs))
	for i, k := range p.SlotIDs {
		slotIDs[i] = p.IDs[k]
	}
	if p.DenyPct > 0 || p.DenySubPct > 0 {
		cfg.Deny = map[string]bool{}
		for _, id := range p.IDs {
			for _, t := range append(append([]string{}, p.Topics...), p.WillTopics...) {
				if r.Chance(p.DenyPct) {
					cfg.Deny[id+"|"+t+"|r"] = true
				}
				if r.Chance(p.DenyPct) {
					cfg.Deny[id+"|"+t+"|w"] = true
				}
			}
			for _, f := range p.Filters {
				if r.Chance(p.DenySubPct) {
					cfg.Deny[id+"|"+f+"|r"] = true
				}
			}
		}
	}
	n := len(p.SlotIDs)
	st := &genState{connected: make([]bool, n), ver: make([]byte, n), hold: make([]bool, n), pendingQ2: map[int][]uint16{}, heldNext: map[int]int{}}
	var ops []Op
	steps := r.Range(p.Steps[0], p.Steps[1])
	kinds := make([]string, 0, len(p.W))
	for _, k := range []string{"connect", "subscribe", "unsubscribe", "publish", "disconnect", "ping", "hold", "tick", "retransmit", "pubrel", "ackone", "failwrite", "stall"} {
		if p.W[k] > 0 {
			kinds = append(kinds, k)
		}
	}
	total := 0
	for _, k := range kinds {
		total += p.W[k]
	}
	idConnected := func(slot int) bool { // is another slot with the same id connected?
		for j := range st.connected {
			if j != slot && st.connected[j] && p.SlotIDs[j] == p.SlotIDs[slot] {
				return true
			}
		}
		return false
	}
	mkConnect := func(slot int) Op {
		op := Op{Kind: "connect", C: slot, Ver: vk.Pick(r, p.Versions), Clean: r.Chance(p.CleanPct)}
		shared := false
		for j := range p.SlotIDs {
			if j != slot && p.SlotIDs[j] == p.SlotIDs[slot] {
				shared = true
			}
		}
		if shared && p.TakeoverSafe {
			op.Ver = 5 // ids that can be taken over live always hold sessions that outlive the connection
		}
		if op.Ver == 5 {
			if len(p.Expiry) > 0 {
				if e := vk.Pick(r, p.Expiry); e > 0 {
					op.Expiry, op.ExpirySet = e, true
				}
			}
			if shared && p.TakeoverSafe && !op.ExpirySet {
				op.Expiry, op.ExpirySet = 300, true
			}
			if len(p.RecvMax) > 0 {
				op.RecvMax = vk.Pick(r, p.RecvMax)
			}
			if len(p.TAM) > 0 {
				op.TAM = vk.Pick(r, p.TAM)
			}
			op.RPI0 = r.Chance(p.RPI0Pct)
			if len(p.MPS) > 0 {
				op.MPS = vk.Pick(r, p.MPS)
			}
		}
		if r.Chance(p.WillPct) && len(p.WillTopics) > 0 && !p.NoWillSlots[slot] {
			w := &Will{Topic: vk.Pick(r, p.WillTopics), QoS: minb(pickB(r, p.PubQoS, 0), cfg.MaxQoS), Retain: r.Chance(p.RetainPct) && cfg.RetainAvailable}
			if op.Ver == 5 && len(p.WillDelay) > 0 {
				w.Delay = vk.Pick(r, p.WillDelay)
			}
			if w.Delay > 0 && w.Retain {
				// delayed wills of different clients may fall due in the same housekeeping sweep, which publishes them in
				// no particular order; retained ones on one topic would leave either as the retained message. Give every
				// client id its own topic for them, so that what must be retained stays decidable
				w.Topic = p.WillTopics[p.SlotIDs[slot]%len(p.WillTopics)]
			}
			op.Will = w
		}
		return op
	}
	if p.ConnectAllFirst {
		for i := 0; i < n; i++ {
			if p.NoSelfTakeover && idConnected(i) {
				continue
			}
			op := mkConnect(i)
			ops = append(ops, op)
			st.connected[i], st.ver[i] = true, op.Ver
			for j := range st.connected {
				if j != i && p.SlotIDs[j] == p.SlotIDs[i] {
					st.connected[j] = false
				}
			}
		}
	}
	for len(ops) < steps {
		x := r.Intn(total)
		kind := ""
		for _, k := range kinds {
			if x < p.W[k] {
				kind = k
				break
			}
			x -= p.W[k]
		}
		slot := r.Intn(n)
		isStalled := st.stalled != nil && st.stalled[slot]
		if isStalled && kind != "stall" && kind != "disconnect" && kind != "publish" {
			continue // a connection that refuses the broker's writes sends nothing that needs a direct reply
		}
		switch kind {
		case "connect":
			if st.connected[slot] {
				continue
			}
			if p.NoSelfTakeover && idConnected(slot) {
				continue
			}
			op := mkConnect(slot)
			ops = append(ops, op)
			st.connected[slot], st.ver[slot], st.hold[slot] = true, op.Ver, false
			if st.stalled != nil {
				st.stalled[slot] = false
			}
			if op.Clean {
				st.pendingQ2[slot] = nil
			}
			for j := range st.connected {
				if j != slot && p.SlotIDs[j] == p.SlotIDs[slot] {
					st.connected[j] = false // taken over
				}
			}
		case "subscribe":
			if !st.connected[slot] {
				continue
			}
			nf := 1
			if p.MultiFilter && r.Chance(30) {
				nf = r.Range(2, 3)
			}
			op := Op{Kind: "subscribe", C: slot}
			for k := 0; k < nf; k++ {
				fs := p.Filters
				if sf, ok := p.SlotFilters[slot]; ok {
					fs = sf
				}
				f := rc.SubFilter{Filter: vk.Pick(r, fs), Options: pickB(r, p.SubQoS, 0)}
				if st.ver[slot] == 5 {
					if r.Chance(p.NLPct) && !(len(f.Filter) > 7 && f.Filter[:7] == "$share/") {
						f.Options |= 4
					}
					if r.Chance(p.RAPPct) {
						f.Options |= 8
					}
					f.Options |= pickB(r, p.RH, 0) << 4
				}
				op.Filters = append(op.Filters, f)
			}
			if st.ver[slot] == 5 && r.Chance(p.SubIDPct) {
				op.SubID = r.Range(1, 9)
			}
			ops = append(ops, op)
		case "unsubscribe":
			if !st.connected[slot] {
				continue
			}
			ops = append(ops, Op{Kind: "unsubscribe", C: slot, Filters: []rc.SubFilter{{Filter: vk.Pick(r, p.Filters)}}})
		case "publish":
			if !st.connected[slot] || st.hold[slot] && false {
				continue
			}
			op := Op{Kind: "publish", C: slot, Topic: vk.Pick(r, p.Topics), QoS: minb(pickB(r, p.PubQoS, 0), cfg.MaxQoS)}
			if r.Chance(p.BadTopicPct) {
				op.Topic = vk.Pick(r, []string{"$SYS/x", "$SYS", "$SYS/broker/uptime"})
			}
			if r.Chance(p.RetainPct) {
				op.Retain = true
				op.Empty = r.Chance(p.EmptyPct)
			}
			if isStalled {
				op.QoS = 0 // no acknowledgement has to be written to the stalled connection
			}
			if st.ver[slot] == 5 && r.Chance(p.PropsPct) {
				op.Props = genAppProps(r)
			}
			if st.ver[slot] == 5 && len(p.MsgExp) > 0 {
				op.MsgExp = vk.Pick(r, p.MsgExp)
			}
			if len(p.Size) > 0 {
				op.Size = vk.Pick(r, p.Size)
			}
			if st.ver[slot] == 5 && r.Chance(p.AliasPct) {
				op.Alias = uint16(r.Range(1, 3))
				op.NoTopic = r.Chance(45)
			}
			if op.QoS == 2 && r.Chance(p.DupQ2Pct) {
				// withhold PUBREL; retransmissions and the release follow later
				st.pidCtr++
				op.PID = 40000 + st.pidCtr
				op.Hold = true
				st.pendingQ2[slot] = append(st.pendingQ2[slot], op.PID)
			}
			if op.QoS > 0 && r.Chance(p.CollidePct) {
				op.Collide = true
			} else if op.QoS == 2 && op.PID == 0 && ((p.CollidePct > 0 && r.Chance(p.CollidePct)) || (p.CollideNextPct > 0 && r.Chance(p.CollideNextPct))) {
				op.CollideNext = true
				st.heldNext[slot]++
			}
			ops = append(ops, op)
		case "retransmit":
			if st.connected[slot] && st.heldNext[slot] > 0 && p.CollideNextPct > 0 && r.Chance(50) {
				// DUP retransmission of the oldest own QoS 2 publish made under a runtime-chosen id
				ops = append(ops, Op{Kind: "publish", C: slot, QoS: 2, Dup: true, HeldDup: true, Topic: vk.Pick(r, p.Topics), Hold: true})
				continue
			}
			if !st.connected[slot] || len(st.pendingQ2[slot]) == 0 {
				continue
			}
			ops = append(ops, Op{Kind: "publish", C: slot, QoS: 2, Dup: true, PID: vk.Pick(r, st.pendingQ2[slot]), Topic: vk.Pick(r, p.Topics), Hold: true})
		case "pubrel":
			if st.connected[slot] && p.CollidePct > 0 && r.Chance(p.CollidePct) {
				// PUBREL carrying an id the broker has outstanding towards this client (or a retransmission for a completed exchange)
				if r.Chance(60) {
					ops = append(ops, Op{Kind: "pubrel", C: slot, Collide: true})
				} else {
					ops = append(ops, Op{Kind: "pubrel", C: slot, PID: uint16(30001 + r.Intn(6))})
				}
				continue
			}
			if st.connected[slot] && st.heldNext[slot] > 0 && r.Chance(60) {
				st.heldNext[slot]--
				ops = append(ops, Op{Kind: "pubrel", C: slot}) // releases the oldest own QoS 2 publish made under a runtime-chosen id
				continue
			}
			if !st.connected[slot] || len(st.pendingQ2[slot]) == 0 {
				continue
			}
			k := r.Intn(len(st.pendingQ2[slot]))
			pid := st.pendingQ2[slot][k]
			st.pendingQ2[slot] = append(st.pendingQ2[slot][:k], st.pendingQ2[slot][k+1:]...)
			ops = append(ops, Op{Kind: "pubrel", C: slot, PID: pid})
		case "disconnect":
			if !st.connected[slot] {
				continue
			}
			how := "normal"
			if len(p.HowDisc) > 0 {
				how = vk.Pick(r, p.HowDisc)
			}
			if how == "will" && st.ver[slot] != 5 {
				how = "drop"
			}
			if isStalled {
				how = "drop"
				st.stalled[slot] = false
			}
			dop := Op{Kind: "disconnect", C: slot, How: how}
			if how == "normal" && st.ver[slot] == 5 && len(p.DiscExpiry) > 0 && r.Chance(p.DiscExpPct) {
				dop.Expiry, dop.ExpirySet = vk.Pick(r, p.DiscExpiry), true
			}
			ops = append(ops, dop)
			st.connected[slot] = false
		case "ping":
			if !st.connected[slot] {
				continue
			}
			ops = append(ops, Op{Kind: "ping", C: slot, N: 1})
		case "hold":
			if !st.connected[slot] {
				continue
			}
			st.hold[slot] = !st.hold[slot]
			ops = append(ops, Op{Kind: "hold", C: slot, Hold: st.hold[slot]})
		case "ackone":
			if !st.connected[slot] || !st.hold[slot] {
				continue
			}
			ops = append(ops, Op{Kind: "ackone", C: slot})
		case "stall":
			if !st.connected[slot] {
				continue
			}
			if st.stalled == nil {
				st.stalled = map[int]bool{}
			}
			st.stalled[slot] = !st.stalled[slot]
			ops = append(ops, Op{Kind: "stall", C: slot, Hold: st.stalled[slot]})
		case "failwrite":
			if !st.connected[slot] {
				continue
			}
			// the connection will die at the broker's next write(s); the generator treats it as gone
			// (later operations on it are skipped by the simulator if it is still open)
			ops = append(ops, Op{Kind: "failwrite", C: slot, N: r.Range(1, 2)})
			if st.hold[slot] && r.Chance(70) {
				ops = append(ops, Op{Kind: "ackone", C: slot})
			}
			st.connected[slot] = false
		case "tick":
			d := int64(100)
			if len(p.TickDelta) > 0 {
				d = vk.Pick(r, p.TickDelta)
			}
			ops = append(ops, Op{Kind: "tick", Delta: d, N: len(ops) % 2}) // N selects the order of the housekeeping sweeps
		}
	}
	return cfg, slotIDs, ops
}

func genAppProps(r *vk.Rand) rc.Props {
	var ps rc.Props
	if r.Bool() {
		ps = append(ps, rc.Prop{ID: rc.PContentType, Str: vk.Pick(r, []string{"text/plain", "application/json", "é"})})
	}
	if r.Bool() {
		ps = append(ps, rc.Prop{ID: rc.PCorrelationData, Bin: r.Bytes(r.Range(1, 6))})
	}
	if r.Bool() {
		ps = append(ps, rc.Prop{ID: rc.PResponseTopic, Str: vk.Pick(r, []string{"reply/a", "r"})})
	}
	if r.Chance(30) {
		ps = append(ps, rc.Prop{ID: rc.PPayloadFormat, Num: uint32(r.Intn(2))})
	}
	n := r.Intn(3)
	for i := 0; i < n; i++ {
		ps = append(ps, rc.Prop{ID: rc.PUserProperty, Str: vk.Pick(r, []string{"k", "k2", ""}), Val: fmt.Sprintf("v%d", r.Intn(3))})
	}
	return ps
}

// CaseResult is what one executed history produced.
type CaseResult struct {
	Findings []Finding
	Counts   map[string]int64
	Incon    string
	Trace    []string
	Ops      []Op
	Cfg      *Config
	SlotIDs  []string
}

// RunCase executes one generated history against a fresh broker.
func RunCase(cfg *Config, slotIDs []string, ops []Op, trace bool, opt *SimOptions) *CaseResult {
	o := SimOptions{ClientIDs: slotIDs, KeepTrace: trace}
	if opt != nil {
		o = *opt
		o.ClientIDs = slotIDs
		o.KeepTrace = trace
	}
	s := NewSim(cfg, o)
	s.Run(ops)
	s.finalChecks()
	if o.Finish != nil {
		o.Finish(s)
	}
	res := &CaseResult{Findings: s.M.Findings, Counts: s.M.Counts, Incon: s.Incon, Trace: s.Trace, Ops: ops, Cfg: cfg, SlotIDs: slotIDs}
	s.Close()
	return res
}

// finalChecks runs end-of-history rules (C23 stream well-formedness at quiescence).
func (s *Sim) finalChecks() {
	s.sysTopicsCheck()
	for _, sl := range s.Slots {
		if sl.Conn == nil {
			continue
		}
		if sl.Conn.Pending() > 0 && sl.Conn.DecErr == nil {
			s.M.flag("C23/partial-packet-at-quiescence", nil, "slot %d: %d trailing bytes do not form a complete packet", sl.Idx, sl.Conn.Pending())
		}
	}
}
