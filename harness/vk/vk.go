// Package vk is the small verification kit shared by every check: seeded PRNG,
// evidence accounting, violation recording with cause keys, known-finding
// classification, replay files and the exit-code protocol.
package vk

import (
	"encoding/json"
	"fmt"
	"hash/fnv"
	"os"
	"path/filepath"
	"runtime"
	"sort"
	"strings"
	"sync"
	"time"
)

// ---------------------------------------------------------------- PRNG

// Rand is a splitmix64 generator; deterministic, splittable, not shared between goroutines.
type Rand struct{ s uint64 }

func NewRand(seed uint64) *Rand { return &Rand{s: seed*0x9E3779B97F4A7C15 + 0x1234567} }

func (r *Rand) U64() uint64 {
	r.s += 0x9E3779B97F4A7C15
	z := r.s
	z = (z ^ (z >> 30)) * 0xBF58476D1CE4E5B9
	z = (z ^ (z >> 27)) * 0x94D049BB133111EB
	return z ^ (z >> 31)
}

// Split derives an independent generator for a labelled sub-stream.
func (r *Rand) Split(label uint64) *Rand {
	return &Rand{s: r.U64() ^ (label * 0xD6E8FEB86659FD93)}
}

// Sub derives a generator from a base seed and labels without consuming state.
func Sub(seed int64, labels ...uint64) *Rand {
	r := NewRand(uint64(seed))
	for _, l := range labels {
		r = &Rand{s: r.U64() ^ (l+1)*0xD6E8FEB86659FD93}
	}
	return r
}

func (r *Rand) Intn(n int) int {
	if n <= 0 {
		return 0
	}
	return int(r.U64() % uint64(n))
}
func (r *Rand) Range(lo, hi int) int { return lo + r.Intn(hi-lo+1) } // inclusive
func (r *Rand) Bool() bool           { return r.U64()&1 == 1 }
func (r *Rand) Chance(pct int) bool  { return r.Intn(100) < pct }
func Pick[T any](r *Rand, xs []T) T  { return xs[r.Intn(len(xs))] }
func (r *Rand) Perm(n int) []int {
	p := make([]int, n)
	for i := range p {
		p[i] = i
	}
	for i := n - 1; i > 0; i-- {
		j := r.Intn(i + 1)
		p[i], p[j] = p[j], p[i]
	}
	return p
}
func (r *Rand) Bytes(n int) []byte {
	b := make([]byte, n)
	for i := range b {
		b[i] = byte(r.U64())
	}
	return b
}

// Hash returns a stable 64-bit hash of the printed representation of the parts.
func Hash(parts ...any) uint64 {
	h := fnv.New64a()
	for _, p := range parts {
		fmt.Fprintf(h, "%v|", p)
	}
	return h.Sum64()
}

// ---------------------------------------------------------------- known findings

type Finding struct {
	Property string            `json:"property"`
	Status   string            `json:"status"` // known | fixed
	Rule     string            `json:"rule"`
	Attrs    map[string]string `json:"attrs,omitempty"`
	What     string            `json:"what"`
	Commit   string            `json:"commit,omitempty"`
	Witness  any               `json:"witness,omitempty"`
	Trigger  string            `json:"trigger,omitempty"`
}

type findingsFile struct {
	Findings []Finding `json:"findings"`
}

func verifRoot() string {
	if d := os.Getenv("VERIF_ROOT"); d != "" {
		return d
	}
	return "/verif"
}

func loadFindings(prop string) []Finding {
	b, err := os.ReadFile(filepath.Join(verifRoot(), "known_findings.json"))
	if err != nil {
		return nil
	}
	var f findingsFile
	if err := json.Unmarshal(b, &f); err != nil {
		fmt.Fprintf(os.Stderr, "vk: known_findings.json unreadable: %v\n", err)
		os.Exit(2)
	}
	var out []Finding
	for _, x := range f.Findings {
		if x.Property == prop && x.Status == "known" {
			out = append(out, x)
		}
	}
	return out
}

// ---------------------------------------------------------------- context

type Violation struct {
	Rule    string            `json:"rule"`
	Attrs   map[string]string `json:"attrs,omitempty"`
	Detail  string            `json:"detail"`
	Witness any               `json:"witness,omitempty"`
	Known   string            `json:"known_finding,omitempty"`
}

type Ctx struct {
	Prop  string
	Tier  string
	Seed  int64
	Level string // exploration | fault_enumeration

	Rule        string // how cases are generated and what counts as nontrivial
	Assumptions []string
	Exhaustive  bool
	MinEvents   map[string]int64 // counters that must reach a minimum, else the run is "starved" (exit 2)

	mu         sync.Mutex
	evals      int64
	distinct   map[uint64]struct{}
	samples    []any
	maxSamples int
	counters   map[string]int64
	sets       map[string]map[string]struct{}
	viols      []Violation
	violKeys   map[string]int
	knownSeen  map[int]int
	known      []Finding
	inconcl    []string
	notes      []string
	start      time.Time
	extra      map[string]any
}

func New(prop, tier string, seed int64, level string) *Ctx {
	return &Ctx{Prop: prop, Tier: tier, Seed: seed, Level: level,
		distinct: map[uint64]struct{}{}, counters: map[string]int64{}, sets: map[string]map[string]struct{}{},
		violKeys: map[string]int{}, knownSeen: map[int]int{}, known: loadFindings(prop),
		maxSamples: 4, start: time.Now(), extra: map[string]any{}, MinEvents: map[string]int64{}}
}

func (c *Ctx) Quick() bool { return c.Tier != "thorough" }

// N picks the tier-dependent count.
func (c *Ctx) N(quick, thorough int) int {
	if c.Quick() {
		return quick
	}
	return thorough
}

// Eval records one executed case; hash identifies the case, nontrivial says the
// monitor observed at least one deciding event in it.
func (c *Ctx) Eval(hash uint64, nontrivial bool) {
	c.mu.Lock()
	c.evals++
	if nontrivial {
		c.distinct[hash] = struct{}{}
	}
	c.mu.Unlock()
}

// EvalN records n executed cases of which d distinct non-trivial ones (for
// enumerations that count locally to avoid lock traffic).
func (c *Ctx) EvalBulk(n int64, hashes []uint64) {
	c.mu.Lock()
	c.evals += n
	for _, h := range hashes {
		c.distinct[h] = struct{}{}
	}
	c.mu.Unlock()
}

func (c *Ctx) Count(name string, n int64) {
	c.mu.Lock()
	c.counters[name] += n
	c.mu.Unlock()
}

// Seen adds a value to a named set whose size is reported (distinct states/interleavings).
func (c *Ctx) Seen(set, val string) {
	c.mu.Lock()
	m := c.sets[set]
	if m == nil {
		m = map[string]struct{}{}
		c.sets[set] = m
	}
	if len(m) < 100000 {
		m[val] = struct{}{}
	}
	c.mu.Unlock()
}

func (c *Ctx) Sample(v any) {
	c.mu.Lock()
	if len(c.samples) < c.maxSamples {
		c.samples = append(c.samples, v)
	}
	c.mu.Unlock()
}

func (c *Ctx) Extra(k string, v any) { c.mu.Lock(); c.extra[k] = v; c.mu.Unlock() }
func (c *Ctx) Note(s string)         { c.mu.Lock(); c.notes = append(c.notes, s); c.mu.Unlock() }

func (c *Ctx) Inconclusive(what string) {
	c.mu.Lock()
	if len(c.inconcl) < 50 {
		c.inconcl = append(c.inconcl, what)
	}
	c.counters["inconclusive_cases"]++
	c.mu.Unlock()
}

func attrsMatch(want, have map[string]string) bool {
	for k, v := range want {
		if have[k] != v {
			return false
		}
	}
	return true
}

// Violate records a violation. rule+attrs is the cause key used for known-finding
// classification and de-duplication. Returns true if it was classified as known.
func (c *Ctx) Violate(rule string, attrs map[string]string, detail string, witness any) bool {
	c.mu.Lock()
	defer c.mu.Unlock()
	for i, k := range c.known {
		if k.Rule == rule && attrsMatch(k.Attrs, attrs) {
			c.knownSeen[i]++
			return true
		}
	}
	key := rule
	ks := make([]string, 0, len(attrs))
	for k := range attrs {
		ks = append(ks, k)
	}
	sort.Strings(ks)
	for _, k := range ks {
		key += ";" + k + "=" + attrs[k]
	}
	c.violKeys[key]++
	if c.violKeys[key] <= 3 && len(c.viols) < 40 {
		c.viols = append(c.viols, Violation{Rule: rule, Attrs: attrs, Detail: detail, Witness: witness})
	}
	return false
}

func (c *Ctx) Violations() int {
	c.mu.Lock()
	defer c.mu.Unlock()
	n := 0
	for _, v := range c.violKeys {
		n += v
	}
	return n
}

// Finish writes evidence and replay files, prints protocol lines and returns the exit code.
func (c *Ctx) Finish() int {
	c.mu.Lock()
	defer c.mu.Unlock()
	root := verifRoot()
	wall := time.Since(c.start).Seconds()

	nviol := 0
	for _, v := range c.violKeys {
		nviol += v
	}
	starved := []string{}
	for k, min := range c.MinEvents {
		if c.counters[k] < min {
			starved = append(starved, fmt.Sprintf("%s=%d<%d", k, c.counters[k], min))
		}
	}
	sort.Strings(starved)

	events := map[string]int64{}
	for k, v := range c.counters {
		events[k] = v
	}
	setSizes := map[string]int{}
	for k, v := range c.sets {
		setSizes[k] = len(v)
	}
	knownObserved := []map[string]any{}
	for i, k := range c.known {
		if c.knownSeen[i] > 0 {
			knownObserved = append(knownObserved, map[string]any{"rule": k.Rule, "attrs": k.Attrs, "what": k.What, "occurrences": c.knownSeen[i]})
		}
	}
	cov := map[string]any{
		"evaluations":         c.evals,
		"distinct_nontrivial": len(c.distinct),
		"rule":                c.Rule,
		"samples":             c.samples,
		"events":              events,
		"distinct_sets":       setSizes,
		"exhaustive":          c.Exhaustive,
		"known_findings_seen": knownObserved,
		"inconclusive":        c.inconcl,
		"notes":               c.notes,
		"gomaxprocs":          runtime.GOMAXPROCS(0),
	}
	for k, v := range c.extra {
		cov[k] = v
	}
	if len(c.viols) > 0 {
		cov["violation_summaries"] = c.viols
	}
	if len(c.samples) == 0 {
		cov["samples"] = []any{"(no sample recorded)"}
	}
	ev := map[string]any{
		"property_id": c.Prop, "tier": c.Tier, "seed": c.Seed, "level": c.Level,
		"coverage": cov, "assumptions": c.Assumptions, "wall_s": wall, "violations": nviol,
	}
	if c.Assumptions == nil {
		ev["assumptions"] = []string{}
	}
	_ = os.MkdirAll(filepath.Join(root, "evidence"), 0o755)
	b, _ := json.MarshalIndent(ev, "", " ")
	evPath := filepath.Join(root, "evidence", c.Prop+".json")
	if err := os.WriteFile(evPath, append(b, '\n'), 0o644); err != nil {
		fmt.Fprintf(os.Stderr, "vk: cannot write evidence: %v\n", err)
		return 2
	}

	for i, k := range c.known {
		if c.knownSeen[i] > 0 {
			fmt.Printf("KNOWN-FINDING: property=%s %s [rule=%s occurrences=%d]\n", c.Prop, k.What, k.Rule, c.knownSeen[i])
		}
	}
	fmt.Printf("SUMMARY property=%s tier=%s seed=%d evaluations=%d distinct_nontrivial=%d violations=%d wall_s=%.1f\n",
		c.Prop, c.Tier, c.Seed, c.evals, len(c.distinct), nviol, wall)
	if nviol > 0 {
		_ = os.MkdirAll(filepath.Join(root, "replay"), 0o755)
		for i, v := range c.viols {
			name := fmt.Sprintf("%s-%s-seed%d-%d.json", c.Prop, sanitize(v.Rule), c.Seed, i)
			p := filepath.Join(root, "replay", name)
			wb, _ := json.MarshalIndent(map[string]any{"property": c.Prop, "tier": c.Tier, "seed": c.Seed, "violation": v}, "", " ")
			_ = os.WriteFile(p, wb, 0o644)
			fmt.Printf("VIOLATION property=%s replay=%s\n", c.Prop, p)
			d := v.Detail
			if len(d) > 600 {
				d = d[:600] + "…"
			}
			fmt.Printf("  rule=%s attrs=%v %s\n", v.Rule, v.Attrs, d)
		}
		return 1
	}
	if len(starved) > 0 {
		fmt.Printf("BROKEN property=%s monitor starved: %s\n", c.Prop, strings.Join(starved, ","))
		return 2
	}
	if len(c.distinct) < 2 {
		fmt.Printf("BROKEN property=%s fewer than 2 distinct non-trivial cases observed\n", c.Prop)
		return 2
	}
	return 0
}

func sanitize(s string) string {
	r := []rune(s)
	for i, ch := range r {
		if !(ch >= 'a' && ch <= 'z' || ch >= 'A' && ch <= 'Z' || ch >= '0' && ch <= '9' || ch == '-') {
			r[i] = '_'
		}
	}
	return string(r)
}

// Parallel runs fn(i) for i in [0,n) on w workers.
func Parallel(n, w int, fn func(i int)) {
	if w <= 0 {
		w = runtime.GOMAXPROCS(0)
	}
	if w > n {
		w = n
	}
	if w <= 1 {
		for i := 0; i < n; i++ {
			fn(i)
		}
		return
	}
	var wg sync.WaitGroup
	ch := make(chan int, w*2)
	for k := 0; k < w; k++ {
		wg.Add(1)
		go func() {
			defer wg.Done()
			for i := range ch {
				fn(i)
			}
		}()
	}
	for i := 0; i < n; i++ {
		ch <- i
	}
	close(ch)
	wg.Wait()
}
