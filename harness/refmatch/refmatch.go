// Package refmatch is an independent reference for MQTT topic matching, filter and
// topic-name validity, written from the OASIS MQTT 5.0 text (section 4.7 and 4.8)
// and sharing no code with the broker under test.
package refmatch

import "strings"

// Match reports whether filter (without any $share prefix) matches topic per MQTT 4.7.
func Match(filter, topic string) bool {
	if filter == "" || topic == "" {
		return false
	}
	// 4.7.2: a filter starting with a wildcard never matches a topic starting with '$'.
	if topic[0] == '$' && (filter[0] == '+' || filter[0] == '#') {
		return false
	}
	f := strings.Split(filter, "/")
	t := strings.Split(topic, "/")
	for i, fl := range f {
		if fl == "#" {
			// multi-level wildcard: matches the parent and any number of child levels;
			// must be the last level (validity is the caller's concern, we still require it).
			return i == len(f)-1
		}
		if i >= len(t) {
			return false
		}
		if fl == "+" {
			continue
		}
		if fl != t[i] {
			return false
		}
	}
	return len(f) == len(t)
}

// SplitShare splits a "$share/<group>/<filter>" subscription filter.
func SplitShare(filter string) (group, inner string, shared bool) {
	if !strings.HasPrefix(filter, "$share/") {
		return "", filter, false
	}
	rest := filter[len("$share/"):]
	i := strings.IndexByte(rest, '/')
	if i < 0 {
		return rest, "", true
	}
	return rest[:i], rest[i+1:], true
}

// validPlainFilter: non-empty, '#' only as whole last level, '+' only as whole levels.
func validPlainFilter(f string) bool {
	if f == "" {
		return false
	}
	levels := strings.Split(f, "/")
	for i, l := range levels {
		if strings.Contains(l, "#") {
			if l != "#" || i != len(levels)-1 {
				return false
			}
		}
		if strings.Contains(l, "+") && l != "+" {
			return false
		}
	}
	return true
}

// ValidFilter is the subscription-filter rule of property C30.
func ValidFilter(f string) bool {
	if f == "" {
		return false
	}
	if f == "$share" || strings.HasPrefix(f, "$share/") {
		if f == "$share" {
			return false
		}
		group, inner, _ := SplitShare(f)
		if group == "" || strings.ContainsAny(group, "+#") {
			return false
		}
		if !strings.Contains(f[len("$share/"):], "/") {
			return false
		}
		return validPlainFilter(inner)
	}
	return validPlainFilter(f)
}

// ValidPublishTopic is the client publish-topic rule of property C30:
// no wildcard and not starting with "$SYS".
func ValidPublishTopic(t string) bool {
	if strings.ContainsAny(t, "+#") {
		return false
	}
	return !strings.HasPrefix(t, "$SYS")
}

// LedgerMatch is the level semantics C18 states for the auth ledger's filters:
// a filter without wildcards matches only the identical topic, '+' matches exactly
// one level, a trailing '#' matches one or more further levels.
func LedgerMatch(filter, topic string) bool {
	f := strings.Split(filter, "/")
	t := strings.Split(topic, "/")
	for i, fl := range f {
		if fl == "#" && i == len(f)-1 {
			return len(t) > i // one or more further levels
		}
		if i >= len(t) {
			return false
		}
		if fl == "+" {
			continue
		}
		if fl != t[i] {
			return false
		}
	}
	return len(f) == len(t)
}
