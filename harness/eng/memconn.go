// Package eng is the history engine: a real broker attached to in-memory connections,
// raw protocol clients speaking through the reference codec, quiescence detection,
// schedule-point control and a global event log.
package eng

import (
	"errors"
	"io"
	"net"
	"os"
	"sync"
	"sync/atomic"
	"time"
)

// Seq is the global logical clock of a run: every observed event gets the next value.
type Seq struct{ n atomic.Int64 }

func (s *Seq) Next() int64 { return s.n.Add(1) }
func (s *Seq) Now() int64  { return s.n.Load() }

type chunk struct {
	Seq  int64
	Data []byte
}

type deadlineRec struct {
	Seq int64
	At  time.Time // wall clock when SetDeadline was called
	T   time.Time // requested deadline (zero = none)
}

// MemConn is the broker's side of an in-memory connection (it implements net.Conn).
// The harness side uses Send/Close/Out*.
type MemConn struct {
	mu   sync.Mutex
	cond *sync.Cond
	seq  *Seq
	act  *atomic.Int64 // global activity counter (quiescence detection)

	in            []byte // client -> broker bytes not yet read
	inClosed      bool   // harness closed its side (reads return EOF after buffered data)
	readerWaiting bool   // broker goroutine is blocked in Read with nothing buffered
	fireDeadline  bool   // next/blocked Read returns a timeout error
	consumed      int64  // bytes the broker has read so far

	out          []chunk // broker -> client writes
	outBytes     int
	brokerClosed bool
	closeSeq     int64

	// fault injection
	failWriteAt  int  // fail the n-th write from now (1-based); 0 = off
	writes       int  // number of writes so far
	stall        bool // block writes until released (backpressure)
	shortWrite   int  // if >0, next write accepts only this many bytes and returns an error
	deadlines    []deadlineRec
	LocalA, RemA net.Addr
}

type memAddr string

func (a memAddr) Network() string { return "mem" }
func (a memAddr) String() string  { return string(a) }

func NewMemConn(seq *Seq, act *atomic.Int64, remote string) *MemConn {
	c := &MemConn{seq: seq, act: act, LocalA: memAddr("broker"), RemA: memAddr(remote)}
	c.cond = sync.NewCond(&c.mu)
	return c
}

type timeoutErr struct{}

func (timeoutErr) Error() string   { return "i/o timeout (injected deadline)" }
func (timeoutErr) Timeout() bool   { return true }
func (timeoutErr) Temporary() bool { return true }
func (timeoutErr) Unwrap() error   { return os.ErrDeadlineExceeded }

// ---- net.Conn (broker side)

func (c *MemConn) Read(p []byte) (int, error) {
	c.mu.Lock()
	defer c.mu.Unlock()
	for {
		if c.brokerClosed {
			return 0, net.ErrClosed
		}
		if c.fireDeadline {
			c.fireDeadline = false
			c.act.Add(1)
			return 0, timeoutErr{}
		}
		if len(c.in) > 0 {
			n := copy(p, c.in)
			c.in = c.in[n:]
			c.consumed += int64(n)
			c.act.Add(1)
			return n, nil
		}
		if c.inClosed {
			c.act.Add(1)
			return 0, io.EOF
		}
		c.readerWaiting = true
		c.cond.Wait()
		c.readerWaiting = false
	}
}

func (c *MemConn) Write(p []byte) (int, error) {
	c.mu.Lock()
	defer c.mu.Unlock()
	for c.stall && !c.brokerClosed {
		c.cond.Wait()
	}
	if c.brokerClosed {
		return 0, net.ErrClosed
	}
	c.writes++
	c.act.Add(1)
	if c.failWriteAt > 0 {
		c.failWriteAt--
		if c.failWriteAt == 0 {
			return 0, errors.New("injected write failure")
		}
	}
	if c.shortWrite > 0 && c.shortWrite < len(p) {
		n := c.shortWrite
		c.shortWrite = 0
		c.out = append(c.out, chunk{Seq: c.seq.Next(), Data: append([]byte{}, p[:n]...)})
		c.outBytes += n
		return n, errors.New("injected short write")
	}
	c.out = append(c.out, chunk{Seq: c.seq.Next(), Data: append([]byte{}, p...)})
	c.outBytes += len(p)
	return len(p), nil
}

func (c *MemConn) Close() error {
	c.mu.Lock()
	defer c.mu.Unlock()
	if !c.brokerClosed {
		c.brokerClosed = true
		c.closeSeq = c.seq.Next()
		c.act.Add(1)
		c.cond.Broadcast()
	}
	return nil
}

func (c *MemConn) LocalAddr() net.Addr  { return c.LocalA }
func (c *MemConn) RemoteAddr() net.Addr { return c.RemA }
func (c *MemConn) SetDeadline(t time.Time) error {
	c.mu.Lock()
	c.deadlines = append(c.deadlines, deadlineRec{Seq: c.seq.Now(), At: time.Now(), T: t})
	c.mu.Unlock()
	return nil
}
func (c *MemConn) SetReadDeadline(t time.Time) error  { return c.SetDeadline(t) }
func (c *MemConn) SetWriteDeadline(t time.Time) error { return c.SetDeadline(t) }

// ---- harness side

// Send makes bytes available to the broker's reader.
func (c *MemConn) Send(b []byte) {
	c.mu.Lock()
	c.in = append(c.in, b...)
	c.act.Add(1)
	c.cond.Broadcast()
	c.mu.Unlock()
}

// CloseByClient simulates the peer closing the connection (network drop).
func (c *MemConn) CloseByClient() {
	c.mu.Lock()
	c.inClosed = true
	c.act.Add(1)
	c.cond.Broadcast()
	c.mu.Unlock()
}

// FireDeadline makes the broker's pending or next Read fail with a timeout (keep-alive expiry).
func (c *MemConn) FireDeadline() {
	c.mu.Lock()
	c.fireDeadline = true
	c.act.Add(1)
	c.cond.Broadcast()
	c.mu.Unlock()
}

// Idle reports that the broker's reader is blocked with nothing to read (or the broker closed the conn).
func (c *MemConn) Idle() bool {
	c.mu.Lock()
	defer c.mu.Unlock()
	return c.brokerClosed || (c.readerWaiting && len(c.in) == 0 && !c.inClosed && !c.fireDeadline)
}

func (c *MemConn) BrokerClosed() (bool, int64) {
	c.mu.Lock()
	defer c.mu.Unlock()
	return c.brokerClosed, c.closeSeq
}

func (c *MemConn) Consumed() int64 { c.mu.Lock(); defer c.mu.Unlock(); return c.consumed }

// OutSince returns the chunks written since index i and the new index.
func (c *MemConn) OutSince(i int) ([]chunk, int) {
	c.mu.Lock()
	defer c.mu.Unlock()
	return append([]chunk{}, c.out[i:]...), len(c.out)
}

func (c *MemConn) OutLen() int { c.mu.Lock(); defer c.mu.Unlock(); return c.outBytes }

func (c *MemConn) Deadlines() []deadlineRec {
	c.mu.Lock()
	defer c.mu.Unlock()
	return append([]deadlineRec{}, c.deadlines...)
}

func (c *MemConn) SetStall(on bool) {
	c.mu.Lock()
	c.stall = on
	c.cond.Broadcast()
	c.mu.Unlock()
}
func (c *MemConn) Stalled() bool { c.mu.Lock(); defer c.mu.Unlock(); return c.stall }
func (c *MemConn) FailWriteAt(n int) {
	c.mu.Lock()
	c.failWriteAt = n
	c.mu.Unlock()
}
func (c *MemConn) ShortWrite(n int) { c.mu.Lock(); c.shortWrite = n; c.mu.Unlock() }
