package eng

import (
	"bytes"
	"fmt"
	"io"
	"log/slog"
	"runtime"
	"strconv"
	"sync"
	"sync/atomic"
	"time"

	mqtt "github.com/mochi-mqtt/server/v2"
	"github.com/mochi-mqtt/server/v2/listeners"
	"github.com/mochi-mqtt/server/v2/packets"

	rc "verif/harness/refcodec"
)

// HookEvent is one recorded hook invocation.
type HookEvent struct {
	Seq     int64        `json:"seq"`
	Hook    string       `json:"hook"`
	Client  string       `json:"client,omitempty"`
	Topic   string       `json:"topic,omitempty"`
	Payload string       `json:"payload,omitempty"`
	PID     uint16       `json:"pid,omitempty"`
	Type    byte         `json:"type,omitempty"`
	N       int64        `json:"n,omitempty"`
	Bytes   []byte       `json:"-"`
	Ptr     *mqtt.Client `json:"-"`
	Remote  string       `json:"-"`
}

// ACLFunc is the test permission relation (nil = allow everything).
type ACLFunc func(clientID, topic string, write bool) bool

type Options struct {
	Caps        func(c *mqtt.Capabilities)
	Inline      bool
	WriteBuf    int
	ReadBuf     int
	ACL         ACLFunc
	NoAuthHook  bool                       // install no authentication hook at all
	NoACLHook   bool                       // the recorder does not answer ACL checks (other hooks decide)
	AuthDeny    func(clientID string) bool // recorder auth decision (nil = allow all)
	ExtraHooks  []HookSpec                 // added after the recorder (or before, see First)
	FirstHooks  []HookSpec                 // added before the recorder
	RecordBytes bool                       // keep OnPacketSent byte slices
	LogSink     io.Writer
}

type HookSpec struct {
	Hook   mqtt.Hook
	Config any
}

// Broker is a real mochi-mqtt server with in-memory connections and a recording hook.
type Broker struct {
	S    *mqtt.Server
	Seq  *Seq
	act  atomic.Int64
	Opts Options

	mu     sync.Mutex
	conns  []*Client
	events []HookEvent
	logBuf *lockedBuf
	nconn  int
	ctl    atomic.Pointer[Controller]
}

type lockedBuf struct {
	mu sync.Mutex
	b  bytes.Buffer
}

func (l *lockedBuf) Write(p []byte) (int, error) {
	l.mu.Lock()
	defer l.mu.Unlock()
	return l.b.Write(p)
}
func (l *lockedBuf) String() string { l.mu.Lock(); defer l.mu.Unlock(); return l.b.String() }

func NewBroker(o Options) *Broker {
	b := &Broker{Seq: &Seq{}, Opts: o, logBuf: &lockedBuf{}}
	caps := mqtt.NewDefaultServerCapabilities()
	if o.Caps != nil {
		o.Caps(caps)
	}
	var sink io.Writer = b.logBuf
	if o.LogSink != nil {
		sink = o.LogSink
	}
	opts := &mqtt.Options{
		Capabilities:             caps,
		InlineClient:             o.Inline,
		ClientNetWriteBufferSize: o.WriteBuf,
		ClientNetReadBufferSize:  o.ReadBuf,
		Logger:                   slog.New(slog.NewTextHandler(sink, &slog.HandlerOptions{Level: slog.LevelWarn})),
	}
	b.S = mqtt.New(opts)
	for _, h := range o.FirstHooks {
		if err := b.S.AddHook(h.Hook, h.Config); err != nil {
			panic(err)
		}
	}
	if err := b.S.AddHook(&recorder{b: b}, nil); err != nil {
		panic(err)
	}
	for _, h := range o.ExtraHooks {
		if err := b.S.AddHook(h.Hook, h.Config); err != nil {
			panic(err)
		}
	}
	_ = b.S.AddListener(listeners.NewMockListener("mem", "mem"))
	return b
}

func (b *Broker) Logs() string { return b.logBuf.String() }

func (b *Broker) record(e HookEvent) {
	e.Seq = b.Seq.Next()
	b.mu.Lock()
	b.events = append(b.events, e)
	b.mu.Unlock()
}

// EventsSince returns hook events from index i on, and the new index.
func (b *Broker) EventsSince(i int) ([]HookEvent, int) {
	b.mu.Lock()
	defer b.mu.Unlock()
	return append([]HookEvent{}, b.events[i:]...), len(b.events)
}

// Client is a raw protocol client on an in-memory connection.
type Client struct {
	B       *Broker
	MC      *MemConn
	Name    string
	Index   int
	Version byte // protocol version for decoding broker output (set by the harness at CONNECT)
	done    chan struct{}
	Err     error        // what EstablishConnection returned
	DoneSeq int64        // global sequence number at which the handler returned (valid once Done())
	RetSeq  atomic.Int64 // sequence number at the handler's deferred return point (0: never registered); only with a controller

	outIdx int
	rx     []byte
	rxSeq  []int64 // seq of the chunk each pending byte came from (first byte of packet decides)
	Inbox  []*RxPacket
	RawLog []byte // every byte the broker wrote, in order
	DecErr error  // first strict decode error on the broker's output
	DecOff int
	parked atomic.Bool
}

type RxPacket struct {
	Seq int64
	P   *rc.Packet
	Raw []byte
}

// Attach creates a connection and starts the broker's handler for it on a new goroutine.
func (b *Broker) Attach() *Client {
	b.mu.Lock()
	b.nconn++
	idx := b.nconn
	b.mu.Unlock()
	name := fmt.Sprintf("10.0.0.%d:%d", idx%250+1, 1000+idx)
	c := &Client{B: b, Name: name, Index: idx, Version: 4, done: make(chan struct{})}
	c.MC = NewMemConn(b.Seq, &b.act, name)
	b.mu.Lock()
	b.conns = append(b.conns, c)
	b.mu.Unlock()
	go func() {
		registerGoroutine(c)
		defer unregisterGoroutine()
		c.Err = b.S.EstablishConnection("mem", c.MC)
		c.DoneSeq = b.Seq.Next()
		b.act.Add(1)
		close(c.done)
	}()
	return c
}

// Done reports whether the broker's handler for this connection has returned.
func (c *Client) Done() bool {
	select {
	case <-c.done:
		return true
	default:
		return false
	}
}

func (c *Client) Send(p *rc.Packet, form rc.Form) { c.MC.Send(rc.Encode(p, form)) }
func (c *Client) SendRaw(b []byte)                { c.MC.Send(b) }

// Drain decodes everything the broker has written since the last call (strict reference
// decoder) and appends complete packets to Inbox. It returns the new packets.
func (c *Client) Drain() []*RxPacket {
	chunks, n := c.MC.OutSince(c.outIdx)
	c.outIdx = n
	for _, ch := range chunks {
		for range ch.Data {
			c.rxSeq = append(c.rxSeq, ch.Seq)
		}
		c.rx = append(c.rx, ch.Data...)
		c.RawLog = append(c.RawLog, ch.Data...)
	}
	var out []*RxPacket
	for len(c.rx) > 0 && c.DecErr == nil {
		p, used, err := rc.DecodeOne(c.Version, c.rx, true)
		if err != nil {
			if rc.IsShort(err) {
				break
			}
			c.DecErr = fmt.Errorf("offset %d: %w", c.DecOff, err)
			break
		}
		rp := &RxPacket{Seq: c.rxSeq[0], P: p, Raw: append([]byte{}, c.rx[:used]...)}
		c.rx = c.rx[used:]
		c.rxSeq = c.rxSeq[used:]
		c.DecOff += used
		c.Inbox = append(c.Inbox, rp)
		out = append(out, rp)
	}
	return out
}

// Pending returns the number of undecoded trailing bytes (a partial packet at quiescence is a violation of C23).
func (c *Client) Pending() int { return len(c.rx) }

// Quiesce waits until every handler is reader-idle or returned, no outbound publish is
// queued or in progress, and no activity happened between two consecutive scans.
// It returns false on timeout (the caller treats that as inconclusive).
func (b *Broker) Quiesce(timeout time.Duration) bool {
	deadline := time.Now().Add(timeout)
	stable := 0
	var last int64 = -1
	spins := 0
	for {
		a := b.act.Load()
		ok := b.allIdle() && b.outboundIdle() && b.allIdle()
		if ok && a == b.act.Load() {
			if a == last {
				stable++
			} else {
				stable = 1
				last = a
			}
			if stable >= 2 {
				return true
			}
		} else {
			stable = 0
			last = -1
		}
		spins++
		if spins < 50 {
			runtime.Gosched()
		} else {
			time.Sleep(20 * time.Microsecond)
			if spins%256 == 0 && time.Now().After(deadline) {
				return false
			}
		}
	}
}

func (b *Broker) allIdle() bool {
	b.mu.Lock()
	cs := b.conns
	b.mu.Unlock()
	for _, c := range cs {
		if c.Done() || c.parked.Load() {
			continue
		}
		if closed, _ := c.MC.BrokerClosed(); closed {
			return false // closed but handler not yet returned: teardown in progress
		}
		if !c.MC.Idle() {
			return false
		}
	}
	return true
}

func (b *Broker) outboundIdle() bool {
	b.mu.Lock()
	cs := b.conns
	b.mu.Unlock()
	for _, c := range cs {
		if c.MC.Stalled() {
			return true // a stalled connection legitimately keeps a write in progress; rely on activity stability
		}
	}
	return b.S.VerifOutboundIdle()
}

// StableFor waits until no activity has been observed for d (used with stalled connections).
func (b *Broker) StableFor(d, timeout time.Duration) bool {
	deadline := time.Now().Add(timeout)
	last := b.act.Load()
	since := time.Now()
	for time.Now().Before(deadline) {
		time.Sleep(100 * time.Microsecond)
		a := b.act.Load()
		if a != last {
			last, since = a, time.Now()
		} else if time.Since(since) >= d {
			return true
		}
	}
	return false
}

func (b *Broker) Conns() []*Client {
	b.mu.Lock()
	defer b.mu.Unlock()
	return append([]*Client{}, b.conns...)
}

// Shutdown closes all connections from the client side and waits for handlers (best effort).
func (b *Broker) Shutdown() {
	for _, c := range b.Conns() {
		c.MC.SetStall(false)
		c.MC.CloseByClient()
	}
	deadline := time.Now().Add(5 * time.Second)
	for _, c := range b.Conns() {
		for !c.Done() && time.Now().Before(deadline) {
			time.Sleep(50 * time.Microsecond)
		}
	}
}

// ---------------------------------------------------------------- recorder hook

type recorder struct {
	mqtt.HookBase
	b *Broker
}

func (r *recorder) ID() string { return "verif-recorder" }
func (r *recorder) Provides(b byte) bool {
	switch b {
	case mqtt.OnConnectAuthenticate:
		return !r.b.Opts.NoAuthHook
	case mqtt.OnACLCheck:
		return !r.b.Opts.NoACLHook
	case mqtt.OnPublishDropped, mqtt.OnPacketSent, mqtt.OnQosPublish, mqtt.OnQosComplete, mqtt.OnQosDropped,
		mqtt.OnPacketIDExhausted, mqtt.OnWillSent, mqtt.OnRetainMessage, mqtt.OnClientExpired, mqtt.OnRetainedExpired,
		mqtt.OnDisconnect, mqtt.OnSessionEstablished, mqtt.OnSubscribed, mqtt.OnUnsubscribed, mqtt.OnPublished, mqtt.OnRetainPublished,
		mqtt.OnConnect, mqtt.OnSessionEstablish:
		return true
	}
	return false
}
func (r *recorder) OnConnect(cl *mqtt.Client, pk packets.Packet) error {
	hookPoint("hook.OnConnect", cl.ID)
	return nil
}
func (r *recorder) OnSessionEstablish(cl *mqtt.Client, pk packets.Packet) {
	hookPoint("hook.OnSessionEstablish", cl.ID)
}
func (r *recorder) OnConnectAuthenticate(cl *mqtt.Client, pk packets.Packet) bool {
	hookPoint("hook.OnConnectAuthenticate", cl.ID)
	if r.b.Opts.AuthDeny != nil && r.b.Opts.AuthDeny(cl.ID) {
		return false
	}
	return true
}
func (r *recorder) OnACLCheck(cl *mqtt.Client, topic string, write bool) bool {
	if r.b.Opts.ACL == nil {
		return true
	}
	return r.b.Opts.ACL(cl.ID, topic, write)
}
func (r *recorder) OnPublishDropped(cl *mqtt.Client, pk packets.Packet) {
	r.b.record(HookEvent{Hook: "OnPublishDropped", Client: cl.ID, Topic: pk.TopicName, Payload: string(pk.Payload), PID: pk.PacketID})
}
func (r *recorder) OnPacketSent(cl *mqtt.Client, pk packets.Packet, b []byte) {
	e := HookEvent{Hook: "OnPacketSent", Client: cl.ID, Topic: pk.TopicName, PID: pk.PacketID, Type: pk.FixedHeader.Type, N: int64(len(b)), Ptr: cl, Remote: cl.Net.Remote}
	if pk.FixedHeader.Type == packets.Publish {
		e.Payload = string(pk.Payload)
	}
	if r.b.Opts.RecordBytes {
		e.Bytes = append([]byte{}, b...)
	}
	r.b.record(e)
}
func (r *recorder) OnQosPublish(cl *mqtt.Client, pk packets.Packet, sent int64, resends int) {
	r.b.record(HookEvent{Hook: "OnQosPublish", Client: cl.ID, Topic: pk.TopicName, Payload: string(pk.Payload), PID: pk.PacketID, Type: pk.FixedHeader.Type})
}
func (r *recorder) OnQosComplete(cl *mqtt.Client, pk packets.Packet) {
	r.b.record(HookEvent{Hook: "OnQosComplete", Client: cl.ID, PID: pk.PacketID, Type: pk.FixedHeader.Type})
}
func (r *recorder) OnQosDropped(cl *mqtt.Client, pk packets.Packet) {
	hookPoint("hook.OnQosDropped", cl.ID)
	r.b.record(HookEvent{Hook: "OnQosDropped", Client: cl.ID, PID: pk.PacketID, Type: pk.FixedHeader.Type, Payload: string(pk.Payload)})
}
func (r *recorder) OnPacketIDExhausted(cl *mqtt.Client, pk packets.Packet) {
	r.b.record(HookEvent{Hook: "OnPacketIDExhausted", Client: cl.ID, Topic: pk.TopicName, Payload: string(pk.Payload)})
}
func (r *recorder) OnWillSent(cl *mqtt.Client, pk packets.Packet) {
	r.b.record(HookEvent{Hook: "OnWillSent", Client: cl.ID, Topic: pk.TopicName, Payload: string(pk.Payload)})
}
func (r *recorder) OnRetainMessage(cl *mqtt.Client, pk packets.Packet, n int64) {
	r.b.record(HookEvent{Hook: "OnRetainMessage", Client: cl.ID, Topic: pk.TopicName, Payload: string(pk.Payload), N: n})
}
func (r *recorder) OnClientExpired(cl *mqtt.Client) {
	r.b.record(HookEvent{Hook: "OnClientExpired", Client: cl.ID})
}
func (r *recorder) OnRetainedExpired(topic string) {
	r.b.record(HookEvent{Hook: "OnRetainedExpired", Topic: topic})
}
func (r *recorder) OnDisconnect(cl *mqtt.Client, err error, expire bool) {
	n := int64(0)
	if expire {
		n = 1
	}
	r.b.record(HookEvent{Hook: "OnDisconnect", Client: cl.ID, N: n})
}
func (r *recorder) OnSessionEstablished(cl *mqtt.Client, pk packets.Packet) {
	r.b.record(HookEvent{Hook: "OnSessionEstablished", Client: cl.ID})
}
func (r *recorder) OnSubscribed(cl *mqtt.Client, pk packets.Packet, codes []byte) {
	r.b.record(HookEvent{Hook: "OnSubscribed", Client: cl.ID, PID: pk.PacketID, N: int64(len(pk.Filters))})
}
func (r *recorder) OnUnsubscribed(cl *mqtt.Client, pk packets.Packet) {
	r.b.record(HookEvent{Hook: "OnUnsubscribed", Client: cl.ID, PID: pk.PacketID, N: int64(len(pk.Filters))})
	hookPoint("hook.OnUnsubscribed", cl.ID)
}
func (r *recorder) OnPublished(cl *mqtt.Client, pk packets.Packet) {
	r.b.record(HookEvent{Hook: "OnPublished", Client: cl.ID, Topic: pk.TopicName, Payload: string(pk.Payload)})
}
func (r *recorder) OnRetainPublished(cl *mqtt.Client, pk packets.Packet) {
	r.b.record(HookEvent{Hook: "OnRetainPublished", Client: cl.ID, Topic: pk.TopicName, Payload: string(pk.Payload)})
}

// ---------------------------------------------------------------- schedule-point controller

// Points are dispatched to the broker that owns the calling goroutine (handlers run on
// goroutines the harness started, so the mapping is exact).

var (
	goMap        sync.Map // goroutine id -> *Client
	ctlInstalled sync.Once
	ctlActive    atomic.Int64
)

func goid() int64 {
	var buf [64]byte
	n := runtime.Stack(buf[:], false)
	// "goroutine 123 [running]:..."
	s := buf[10:n]
	i := bytes.IndexByte(s, ' ')
	if i < 0 {
		return -1
	}
	v, _ := strconv.ParseInt(string(s[:i]), 10, 64)
	return v
}

func installController() {
	ctlInstalled.Do(func() {
		mqtt.SetVerifController(func(point, id string) {
			if v, ok := goMap.Load(goid()); ok {
				if ctlActive.Load() == 0 {
					return
				}
				if ctl := v.(*Client).B.ctl.Load(); ctl != nil {
					ctl.hit(v.(*Client), point, id)
				}
				return
			}
			// a broker goroutine the harness did not start (real listeners): only observed, never parked
			if f := pointObserver.Load(); f != nil {
				(*f)(point, id)
			}
		})
	})
}

var pointObserver atomic.Pointer[func(point, id string)]

// ObservePoints installs (nil: removes) an observer for schedule points passed by broker goroutines
// that were not started through Broker.Attach (connections accepted by real listeners).
func ObservePoints(f func(point, id string)) {
	installController()
	if f == nil {
		pointObserver.Store(nil)
		return
	}
	pointObserver.Store(&f)
}

func registerGoroutine(b *Client) {
	installController()
	goMap.Store(goid(), b)
}
func unregisterGoroutine() { goMap.Delete(goid()) }
