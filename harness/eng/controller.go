package eng

import (
	"sync"
	"time"
)

// Controller parks and releases broker goroutines at named schedule points.
type Controller struct {
	b      *Broker
	mu     sync.Mutex
	cond   *sync.Cond
	rules  map[string]bool      // "point|id" (id "*" = any) -> park arrivals
	parked map[string][]*parkee // goroutines currently held
	trace  []string
	Sleep  func(point string) time.Duration // optional perturbation for un-parked points
}

type parkee struct {
	cl      *Client
	release bool
}

// EnableControl installs a controller for this broker's handler goroutines.
func (b *Broker) EnableControl() *Controller {
	c := &Controller{b: b, rules: map[string]bool{}, parked: map[string][]*parkee{}}
	c.cond = sync.NewCond(&c.mu)
	b.ctl.Store(c)
	ctlActive.Add(1)
	return c
}

func (b *Broker) DisableControl() {
	if c := b.ctl.Load(); c != nil {
		c.ReleaseAll()
		b.ctl.Store(nil)
		ctlActive.Add(-1)
	}
}

func (c *Controller) hit(cl *Client, point, id string) {
	if point == "attach.handler_return" {
		cl.RetSeq.Store(c.b.Seq.Next()) // stamped before the handler signals the wait group
	}
	c.mu.Lock()
	c.trace = append(c.trace, point+":"+id)
	key := ""
	switch {
	case c.rules[point+"|"+id]:
		key = point + "|" + id
	case c.rules[point+"|*"]:
		key = point + "|*"
	}
	if key == "" {
		sl := c.Sleep
		c.mu.Unlock()
		if sl != nil {
			if d := sl(point); d > 0 {
				time.Sleep(d)
			}
		}
		return
	}
	pk := &parkee{cl: cl}
	c.parked[key] = append(c.parked[key], pk)
	cl.parked.Store(true)
	c.b.act.Add(1)
	c.cond.Broadcast()
	for !pk.release {
		c.cond.Wait()
	}
	cl.parked.Store(false)
	c.b.act.Add(1)
	c.mu.Unlock()
}

// ParkAt makes future arrivals at (point, id) wait; id "*" matches any client id.
func (c *Controller) ParkAt(point, id string) {
	c.mu.Lock()
	c.rules[point+"|"+id] = true
	c.mu.Unlock()
}

// WaitParked waits until n goroutines are held at (point, id).
func (c *Controller) WaitParked(point, id string, n int, timeout time.Duration) bool {
	deadline := time.Now().Add(timeout)
	key := point + "|" + id
	c.mu.Lock()
	defer c.mu.Unlock()
	for c.countHeld(key) < n {
		if time.Now().After(deadline) {
			return false
		}
		c.mu.Unlock()
		time.Sleep(50 * time.Microsecond)
		c.mu.Lock()
	}
	return true
}

func (c *Controller) countHeld(key string) int {
	n := 0
	for _, p := range c.parked[key] {
		if !p.release {
			n++
		}
	}
	return n
}

// Release stops parking at (point, id) and lets every held goroutine continue.
func (c *Controller) Release(point, id string) {
	key := point + "|" + id
	c.mu.Lock()
	delete(c.rules, key)
	for _, p := range c.parked[key] {
		p.release = true
		p.cl.parked.Store(false) // running again from the releaser's point of view (quiescence must not treat it as idle)
		c.b.act.Add(1)
	}
	delete(c.parked, key)
	c.cond.Broadcast()
	c.mu.Unlock()
}

// ReleaseOne lets the k-th held goroutine (arrival order) continue; the rule stays.
func (c *Controller) ReleaseOne(point, id string, k int) bool {
	key := point + "|" + id
	c.mu.Lock()
	defer c.mu.Unlock()
	i := 0
	for _, p := range c.parked[key] {
		if p.release {
			continue
		}
		if i == k {
			p.release = true
			p.cl.parked.Store(false) // running again from the releaser's point of view (quiescence must not treat it as idle)
			c.b.act.Add(1)
			c.cond.Broadcast()
			return true
		}
		i++
	}
	return false
}

// ReleaseConn releases the goroutine of a specific connection held at (point,id).
func (c *Controller) ReleaseConn(point, id string, cl *Client) bool {
	key := point + "|" + id
	c.mu.Lock()
	defer c.mu.Unlock()
	for _, p := range c.parked[key] {
		if !p.release && p.cl == cl {
			p.release = true
			p.cl.parked.Store(false) // running again from the releaser's point of view (quiescence must not treat it as idle)
			c.b.act.Add(1)
			c.cond.Broadcast()
			return true
		}
	}
	return false
}

func (c *Controller) ReleaseAll() {
	c.mu.Lock()
	c.rules = map[string]bool{}
	for k, ps := range c.parked {
		for _, p := range ps {
			p.release = true
			p.cl.parked.Store(false) // running again from the releaser's point of view (quiescence must not treat it as idle)
			c.b.act.Add(1)
		}
		delete(c.parked, k)
	}
	c.cond.Broadcast()
	c.mu.Unlock()
}

func (c *Controller) Trace() []string {
	c.mu.Lock()
	defer c.mu.Unlock()
	return append([]string{}, c.trace...)
}

// hookPoint lets hook callbacks act as schedule points (same dispatch as the source-level points).
func hookPoint(point, id string) {
	if ctlActive.Load() == 0 {
		return
	}
	if v, ok := goMap.Load(goid()); ok {
		if ctl := v.(*Client).B.ctl.Load(); ctl != nil {
			ctl.hit(v.(*Client), point, id)
		}
	}
}
