#!/usr/bin/env python3
"""Regenerates the tables of DESIGN.md section 8 (8.1 repairs from `git log` of /repo + the fixed entries of
known_findings.json; 8.2 from the known entries)."""
import json,re,subprocess
kf=json.load(open('/verif/known_findings.json'))['findings']
props={}
for e in kf:
    if e.get('status')=='fixed': props.setdefault(e['commit'][:7],set()).add(e['property'])
log=subprocess.run(['git','-C','/repo','log','--reverse','--format=%h %s'],capture_output=True,text=True).stdout.splitlines()
rows=["| commit | properties | what the commit does |","|---|---|---|"]
for l in log:
    h,s=l.split(' ',1)
    if not s.startswith('fix:'): continue
    p=', '.join(sorted(props.get(h[:7],[]))) or '—'
    rows.append(f"| `{h}` | {p} | {s[4:].strip()} |")
t1='\n'.join(rows)+'\n'
rows=["| property | rule | cause attributes | what fails |","|---|---|---|---|"]
for e in kf:
    if e.get('status')!='known': continue
    a=', '.join(f"{k}={v}" for k,v in (e.get('attrs') or {}).items()) or '—'
    rows.append(f"| {e['property']} | `{e['rule']}` | {a} | {' '.join(e['what'].split()).replace('|','/')} |")
t2='\n'.join(rows)+'\n'
p='/verif/DESIGN.md'; s=open(p).read()
def put(s,tag,t):
    b,e=f'<!-- {tag}-BEGIN -->',f'<!-- {tag}-END -->'
    assert b in s, tag
    i,j=s.index(b),s.index(e)
    return s[:i]+b+'\n'+t+s[j:]
s=put(s,'FIX-TABLE',t1); s=put(s,'KNOWN-TABLE',t2)
open(p,'w').write(s)
print(t1.count('\n')-2,'repairs;',t2.count('\n')-2,'known findings')
