#!/usr/bin/env python3
"""triage.py <ID> [substr]: print, for each distinct (rule, attrs) among replay files of a check, the trace around the failing step."""
import json,glob,sys,re
pid=sys.argv[1]; flt=sys.argv[2] if len(sys.argv)>2 else ''
seen=set()
for f in sorted(glob.glob(f'/verif/replay/{pid}-*.json')):
    d=json.load(open(f)); v=d['violation']; w=v.get('witness') or {}; a=v.get('attrs') or {}
    key=(v['rule'],json.dumps(a,sort_keys=True))
    if key in seen or not isinstance(w,dict) or 'trace' not in w: continue
    if flt and flt not in json.dumps(v): continue
    seen.add(key)
    print("=====",f.split('/')[-1],v['rule'],a,"\n     ",v['detail'][:200],"step",w['failing_step'])
    tr=w['trace']; st=w['failing_step']
    out=[];p=False
    for l in tr:
        if l.startswith('#%d '%(st-1)) or l.startswith('#%d '%(st)): p=True
        if l.startswith('#%d '%(st+1)): p=False
        if p: out.append(l)
    print("\n".join(out[:30]))
    m=re.search(r'\b(m\d+)\b',v['detail'])
    if m:
        mid=m.group(1); print("  -- lines mentioning",mid); print("\n".join([l for l in tr if ('"'+mid+'"') in l][:8]))
    print("  -- connection ops so far:")
    for i,o in enumerate(w['ops'][:st+1]):
        if o['kind'] in('connect','disconnect','tick'): print("   ",i,{k:x for k,x in o.items() if k not in('filters',)})
