#!/bin/bash
# run_seed.sh <seed-dir-name> <tier> <check-id>... : apply /verif/seeded/<name>/patch.diff to /repo, run checks, undo.
set -u
NAME="$1"; TIER="$2"; shift 2
P=/verif/seeded/$NAME/patch.diff
[ -n "$(git -C /repo status --porcelain)" ] && { echo "repo dirty"; exit 2; }
git -C /repo apply "$P" || { echo "patch does not apply"; exit 2; }
trap 'git -C /repo checkout -- . ' EXIT
for id in "$@"; do
  OUT=$(cd /verif && VERIF_ROOT_EVID=0 ./check $id $TIER 2>&1); RC=$?
  echo "$OUT" | grep -E "^(VIOLATION|SUMMARY|BROKEN|KNOWN)" | head -5
  echo "SEED $NAME check=$id tier=$TIER exit=$RC"
done
