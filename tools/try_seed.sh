#!/bin/bash
# try_seed.sh <patch.diff> <tier> <check-id>... : run checks against a scratch copy of /repo with the patch applied
# (leaves /repo untouched, so it can run while other checks use /repo).
set -u
P="$1"; TIER="$2"; shift 2
D=$(mktemp -d /dev/shm/seedrepo.XXXXXX); trap 'rm -rf "$D"' EXIT
rsync -a --exclude .git /repo/ "$D/repo/"
( cd "$D/repo" && patch -p1 -s < "$P" ) || { echo "patch does not apply"; exit 2; }
for id in "$@"; do
  OUT=$(cd /verif && VERIF_REPO="$D/repo" ./check $id $TIER 2>&1); RC=$?
  echo "$OUT" | grep -E "^(VIOLATION|SUMMARY|BROKEN|  rule)" | cut -c1-300 | head -6
  echo "SEED $(basename $(dirname $P)) check=$id tier=$TIER exit=$RC"
done
