#!/bin/bash
# refresh_seed.sh <name>: re-base seeded/<name>/patch.diff onto /repo HEAD using fuzzy patch; keeps original as patch.orig.diff
set -u
N=$1; D=/verif/seeded/$N
WT=/tmp/wtv/refresh-$N; rm -rf $WT; git -C /repo worktree prune
git -C /repo worktree add -q --detach $WT HEAD || exit 2
cd $WT
if patch -p1 -F3 --no-backup-if-mismatch < $D/patch.diff >/dev/null 2>&1; then
  export GOFLAGS=-mod=mod GOPROXY=off GOSUMDB=off GOTOOLCHAIN=local
  if go build ./... 2>/dev/null; then
    [ -f $D/patch.orig.diff ] || cp $D/patch.diff $D/patch.orig.diff
    git diff > $D/patch.diff; echo "refreshed $N"
  else echo "build fails after fuzzy apply: $N"; fi
else echo "fuzzy apply failed: $N"; fi
cd /; git -C /repo worktree remove --force $WT
