#!/bin/bash
# mk_lockmon_tree.sh <dir>: builds <dir>/repo = copy of /repo's working tree with sync.(RW)Mutex rewritten to
# lockmon.(RW)Mutex in the non-test sources, and <dir>/harness.go.mod pointing the harness at that copy.
set -eu
D="$1"; ROOT="$(cd "$(dirname "$0")/.." && pwd)"
mkdir -p "$D/repo"
REPO="${VERIF_REPO:-/repo}"
rsync -a --delete --exclude .git --exclude examples --exclude cmd "$REPO/" "$D/repo/"
mkdir -p "$D/repo/lockmon"
cp "$ROOT/harness/lockmon/lockmon.go" "$D/repo/lockmon/lockmon.go"
N=0
while IFS= read -r f; do
  case "$f" in *_test.go|*/lockmon/*) continue;; esac
  perl -0pi -e '
    s/\bsync\.RWMutex\b/lockmon.RWMutex/g; s/\bsync\.Mutex\b/lockmon.Mutex/g;
    s/^import \(\n/import (\n\t"github.com\/mochi-mqtt\/server\/v2\/lockmon"\n/m;
    $_ .= "\nvar _ sync.Locker // keeps the sync import used after the lock rewrite\n" if /^\t"sync"$/m;
  ' "$f"
  N=$((N+1))
done < <(grep -rlE 'sync\.(RW)?Mutex' --include=*.go "$D/repo")
sed "s#=> /repo#=> $D/repo#" "$ROOT/harness/go.mod" > "$D/harness.go.mod"
cp "$ROOT/harness/go.sum" "$D/harness.go.sum" 2>/dev/null || true
echo "lockmon tree: $N files rewritten in $D/repo"
