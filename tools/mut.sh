#!/bin/bash
# mut.sh <check-id[,id..]> <tier> <file> <perl-substitution>  : apply an ad-hoc mutation to /repo, run checks, undo.
# example: tools/mut.sh C41 quick mempool/bufpool.go 's/x.Reset\(\)\n//'
set -u
IDS="$1"; TIER="$2"; FILE="$3"; SUB="$4"
[ -n "$(git -C /repo status --porcelain)" ] && { echo "repo dirty"; exit 2; }
trap 'git -C /repo checkout -- . ' EXIT
perl -0pi -e "$SUB" "/repo/$FILE"
git -C /repo diff --stat | tail -1
[ -z "$(git -C /repo status --porcelain)" ] && { echo "mutation did not change anything"; exit 2; }
for id in ${IDS//,/ }; do
  OUT=$(cd /verif && ./check $id $TIER 2>&1); RC=$?
  echo "$OUT" | grep -E "^(VIOLATION|SUMMARY|BROKEN|KNOWN|  rule)" | cut -c1-260 | head -8
  echo "MUT check=$id tier=$TIER exit=$RC"
done
