#!/bin/bash
# prep_seed_round.sh <round> <id>... : scratch worktrees of /repo HEAD under /tmp/wt<round>/<id> and a prompt (property
# text only + tools/seed_prompt.txt) under /tmp/seedout<round>/<id>/prompt.txt for seeding sub-agents.
set -eu
R="$1"; shift
for ID in "$@"; do
  WT=/tmp/wt$R/$ID; OUT=/tmp/seedout$R/$ID
  mkdir -p "$OUT"; rm -rf "$WT"; git -C /repo worktree prune
  git -C /repo worktree add -q --detach "$WT" HEAD
  python3 - "$ID" "$WT" "$OUT" <<'PY'
import json,sys
pid,wt,out=sys.argv[1:4]
for l in open('/verif/properties.jsonl'):
    d=json.loads(l)
    if d['id']==pid: break
a=d['anchors']
prop=f"Property {pid}: {d['title']}\n\nStatement: {d['statement']}\n\nQuantified over: {d['quantifier']['text']}\n\nWhy the existing tests cannot settle it: {d['why_tests_cant']}\n\nCode it is anchored in: {json.dumps(a.get('files'))}; mechanisms: {json.dumps(a.get('mechanism'))}\n"
open(out+'/property.txt','w').write(prop)
t=open('/verif/tools/seed_prompt.txt').read()
t=t.replace('__WT__',wt).replace('__OUT__',out).replace('__PROPERTY__',prop).replace('__ID__',pid)
t=t.replace("rerun once if only they fail)","rerun once if only they fail; tests in ./listeners and TestServerServeFromConfig bind fixed ports and may fail with 'address already in use' because other jobs on this machine use the same ports - rerun those too; TestPublishToClientServerDowngradeQos and TestPublishToSubscribers are timing-flaky under load as well)")
open(out+'/prompt.txt','w').write(t)
PY
done
