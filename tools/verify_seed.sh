#!/bin/bash
# verify_seed.sh <srcdir-with-patch.diff,demo,meta.json> <seed-name>
# Confirms in a scratch worktree of /repo HEAD: patch applies + builds, suite passes with it,
# demo passes without the patch and fails with it. On success stores /verif/seeded/<name>/.
set -u
export GOFLAGS=-mod=mod GOPROXY=off GOSUMDB=off GOTOOLCHAIN=local
SRC="$1"; NAME="$2"
WT=/tmp/wtv/$NAME
rm -rf "$WT"; git -C /repo worktree prune
git -C /repo worktree add -q --detach "$WT" HEAD || exit 2
cleanup() { git -C /repo worktree remove --force "$WT" 2>/dev/null; rm -rf "$WT"; }
trap cleanup EXIT
cd "$WT"
DEMO_DIR=$(python3 -c "import json;print(json.load(open('$SRC/meta.json')).get('demo_dir','.'))")
DEMO_CMD=$(python3 -c "import json;print(json.load(open('$SRC/meta.json')).get('demo_cmd',''))")
R="$SRC/verify.log"; : > "$R"
if ! git apply --check "$SRC/patch.diff" 2>>"$R"; then echo "RESULT $NAME patch-does-not-apply" | tee -a "$R"; exit 1; fi
run_demo() {
  mkdir -p _seed; cp "$SRC"/*.go "$SRC"/meta.json _seed/ 2>/dev/null
  case "$DEMO_CMD" in *"cp "*) ;; *) cp "$SRC"/*_test.go "$DEMO_DIR"/ 2>/dev/null ;; esac
  ( eval "$DEMO_CMD" ) >>"$R" 2>&1; local rc=$?
  git clean -fdqx
  return $rc
}
run_demo; A=$?
git apply "$SRC/patch.diff"
run_demo; B=$?
go build ./... >>"$R" 2>&1; C=$?
go test -vet=off -count=1 ./... >"$SRC/suite.log" 2>&1; D=$?
if [ $D -ne 0 ]; then # retry flaky listeners/timing
  go test -vet=off -count=1 ./... >"$SRC/suite.log" 2>&1; D=$?
fi
echo "RESULT $NAME demo_without_patch_rc=$A demo_with_patch_rc=$B build_rc=$C suite_rc=$D" | tee -a "$R"
if [ $A -eq 0 ] && [ $B -ne 0 ] && [ $C -eq 0 ] && [ $D -eq 0 ]; then
  mkdir -p /verif/seeded/$NAME; cp "$SRC/patch.diff" "$SRC"/*_test.go "$SRC/meta.json" /verif/seeded/$NAME/
  python3 - "$NAME" "$A" "$B" "$D" <<'PY'
import json,sys
n=sys.argv[1]; p=f'/verif/seeded/{n}/meta.json'; m=json.load(open(p))
m['confirmed']={'by':'tools/verify_seed.sh in a scratch worktree of /repo HEAD','demo_without_patch_rc':int(sys.argv[2]),'demo_with_patch_rc':int(sys.argv[3]),'suite_with_patch_rc':int(sys.argv[4])}
json.dump(m,open(p,'w'),indent=1)
PY
  echo "KEPT $NAME"
fi
