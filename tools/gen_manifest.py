#!/usr/bin/env python3
"""Regenerates /verif/MANIFEST.json from tools/checks.json (one entry per claimed property)."""
import json, os, subprocess
root = os.path.dirname(os.path.dirname(os.path.abspath(__file__)))
checks = json.load(open(os.path.join(root, 'tools', 'checks.json')))
props = [json.loads(l) for l in open(os.path.join(root, 'properties.jsonl'))]
ids = [p['id'] for p in props]
hook_commits = []
try:
    out = subprocess.check_output(['git', '-C', '/repo', 'log', '--format=%H %s'], text=True)
    for line in out.splitlines():
        h, s = line.split(' ', 1)
        if s.startswith('verif:'):
            hook_commits.append(h)
except Exception:
    pass
man = {
    "version": 1,
    "setup_cmd": "./setup.sh",
    "hooks": {
        "guard": "verif",
        "enable": "go build -tags verif (harness module /verif/harness with `replace github.com/mochi-mqtt/server/v2 => /repo`); ./check passes the tag",
        "baseline_off_cmd": "cd /repo && GOFLAGS=-mod=mod GOPROXY=off GOSUMDB=off GOTOOLCHAIN=local go test -vet=off -count=1 ./...",
        "source_commits": hook_commits,
        "add_only": True,
    },
    "engines": checks.get("engines", []),
    "checks": [],
    "notes": checks.get("notes", ""),
    "not_applicable": [],
}
claimed = checks["checks"]
for pid in ids:
    c = claimed.get(pid)
    if not c:
        man["not_applicable"].append({"property_id": pid, "reason": checks.get("unclaimed", {}).get(pid, "monitor not built yet in this session; not claimed")})
        continue
    e = {
        "property_id": pid,
        "quick_cmd": f"./check {pid} quick",
        "thorough_cmd": f"./check {pid} thorough",
        "evidence_file": f"/verif/evidence/{pid}.json",
        "replay_cmd_template": f"./check {pid} --replay {{path}}",
        "engine": c.get("engine", "vcheck"),
        "level_claimed": {"category": c["level"], "text": c["text"], "design_ref": c.get("design_ref", f"DESIGN.md §3 {pid}")},
        "level_note": c["note"],
        "technique": c["technique"],
    }
    man["checks"].append(e)
json.dump(man, open(os.path.join(root, 'MANIFEST.json'), 'w'), indent=1)
print("claimed", len(man["checks"]), "not_applicable", len(man["not_applicable"]))
