#!/bin/bash
# sweep.sh <tier> <seed>... : every check at each seed, one line per run (exit code, summary), on /repo itself
TIER="$1"; shift
IDS=$(python3 -c "import json;print(' '.join(c['id'] for c in json.load(open('/verif/MANIFEST.json'))['checks']))" 2>/dev/null)
[ -z "$IDS" ] && IDS=$(seq -f "C%02g" 1 42)
for s in "$@"; do for id in $IDS; do
  O=$(cd /verif && VERIF_SEED=$s ./check $id $TIER 2>&1); rc=$?
  echo "seed=$s $id rc=$rc $(echo "$O" | grep -E '^SUMMARY' | cut -d' ' -f5-) $(echo "$O" | grep -cE '^KNOWN-FINDING') known $(echo "$O" | grep -E '^(VIOLATION|BROKEN|NOTE)' | head -3 | tr '\n' ';' | cut -c1-300)"
done; done
