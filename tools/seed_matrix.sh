#!/bin/bash
# seed_matrix.sh [tier] [seed-name...]: runs every seeded change (or the named ones) against the check of its own
# property - plus the checks listed under "also_checks" in its meta.json - on a scratch copy (/repo untouched) and
# writes seeded/RESULTS.md
TIER="${1:-quick}"; shift; OUT=/verif/seeded/RESULTS.md
NAMES="$@"; [ -z "$NAMES" ] && NAMES=$(ls -d /verif/seeded/C*-*/ | xargs -n1 basename)
TMP=$(mktemp)
for n in $NAMES; do d=/verif/seeded/$n; [ -f $d/patch.diff ] || continue; id=${n%%-*}
  CHECKS="$id $(python3 -c "import json;print(' '.join(json.load(open('$d/meta.json')).get('also_checks',[])))")"
  for ck in $CHECKS; do
    R=$(/verif/tools/try_seed.sh $d/patch.diff $TIER $ck 2>&1); rc=$(echo "$R" | grep -oE "exit=[0-9]+" | tail -1)
    rule=$(echo "$R" | grep -E "^  rule=" | head -1 | sed 's/^  rule=//' | cut -d' ' -f1)
    det=no; [ "$rc" = "exit=1" ] && det=yes
    echo "| $n | $id | $ck | $TIER | $det | $rule |" >> $TMP; echo "$n check=$ck $rc $rule"
  done
done
# merge with earlier results for seeds not rerun
{ echo "| seed | property | check run | tier | detected | first rule reported |"; echo "|---|---|---|---|---|---|";
  { [ -f $OUT ] && grep -E "^\| C[0-9]+-[0-9]+ " $OUT | while IFS= read -r l; do k=$(echo "$l" | awk -F'|' '{gsub(/ /,"",$2);gsub(/ /,"",$4);print $2"|"$4}'); grep -qE "^\| ${k%%|*} \| [^|]* \| ${k##*|} " $TMP || echo "$l"; done; cat $TMP; } | sort -u; } > $OUT.new
mv $OUT.new $OUT; rm -f $TMP
