#!/bin/bash
# seed_matrix.sh [tier]: runs every seeded change against the check of its own property (scratch copy, /repo untouched)
# and writes seeded/RESULTS.md
TIER="${1:-quick}"; OUT=/verif/seeded/RESULTS.md
echo "| seed | property | tier | detected | first rule reported |" > $OUT.tmp; echo "|---|---|---|---|---|" >> $OUT.tmp
for d in /verif/seeded/*/; do n=$(basename $d); [ -f $d/patch.diff ] || continue; id=${n%%-*}
  R=$(/verif/tools/try_seed.sh $d/patch.diff $TIER $id 2>&1); rc=$(echo "$R" | grep -oE "exit=[0-9]+" | tail -1)
  rule=$(echo "$R" | grep -E "^  rule=" | head -1 | sed 's/^  rule=//' | cut -d' ' -f1)
  det=no; [ "$rc" = "exit=1" ] && det=yes
  echo "| $n | $id | $TIER | $det | $rule |" >> $OUT.tmp; echo "$n $rc $rule"
done
mv $OUT.tmp $OUT
