#!/usr/bin/env python3
"""Replaces the block between SEED-TABLE-BEGIN/END in DESIGN.md with the current table."""
import subprocess,re
t=subprocess.run(['python3','/verif/tools/gen_seed_table.py'],capture_output=True,text=True).stdout
p='/verif/DESIGN.md'; s=open(p).read()
s=re.sub(r'<!-- SEED-TABLE-BEGIN -->.*?<!-- SEED-TABLE-END -->','<!-- SEED-TABLE-BEGIN -->\n'+t.replace('\\','\\\\')+'<!-- SEED-TABLE-END -->',s,flags=re.S)
open(p,'w').write(s)
