#!/usr/bin/env python3
"""Prints the seeded-change table for DESIGN.md section 7 from seeded/*/meta.json and seeded/RESULTS.md."""
import json,glob,os,re
res={}
for l in open('/verif/seeded/RESULTS.md'):
    p=[x.strip() for x in l.strip().strip('|').split('|')]
    if len(p)>=6 and re.match(r'C\d\d-\d',p[0]): res.setdefault(p[0],[]).append((p[2],p[4],p[5]))
print("| seed | change (site: what) | needs | detected by (quick tier): first rule |")
print("|---|---|---|---|")
for d in sorted(glob.glob('/verif/seeded/C*-*/')):
    n=os.path.basename(d.rstrip('/'))
    m=json.load(open(d+'meta.json'))
    files=sorted(set(re.findall(r'^\+\+\+ b/(\S+)',open(d+'patch.diff').read(),re.M)))
    def short(s,k):
        s=' '.join(str(s).split()); s=s.replace('|','/')
        return s if len(s)<=k else s[:k-1].rsplit(' ',1)[0]+'…'
    det='; '.join(f"{ck}: {rule}" if d=='yes' else f"{ck}: **not detected**" for ck,d,rule in res.get(n,[])) or '?'
    print(f"| {n} | `{', '.join(files)}`: {short(m.get('summary',''),230)} | {short(m.get('needs',''),150)} | {det} |")
