#!/usr/bin/env python3
"""Prints the seeded-change table for DESIGN.md section 7 from seeded/*/meta.json and seeded/RESULTS.md."""
import json,glob,os,re
res={}
for l in open('/verif/seeded/RESULTS.md'):
    p=[x.strip() for x in l.strip().strip('|').split('|')]
    if len(p)>=5 and re.match(r'C\d\d-\d',p[0]): res[p[0]]=(p[3],p[4])
print("| seed | change (site: what) | needs | detected (quick) | first rule |")
print("|---|---|---|---|---|")
for d in sorted(glob.glob('/verif/seeded/C*-*/')):
    n=os.path.basename(d.rstrip('/'))
    m=json.load(open(d+'meta.json'))
    files=sorted(set(re.findall(r'^\+\+\+ b/(\S+)',open(d+'patch.diff').read(),re.M)))
    def short(s,k):
        s=' '.join(str(s).split()); s=s.replace('|','/')
        return s if len(s)<=k else s[:k-1].rsplit(' ',1)[0]+'…'
    det,rule=res.get(n,('?',''))
    print(f"| {n} | `{', '.join(files)}`: {short(m.get('summary',''),230)} | {short(m.get('needs',''),150)} | {det} | {rule} |")
