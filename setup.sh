#!/bin/bash
# Offline setup: warm the Go build cache for the harness variants. Nothing produced here is
# required later (every ./check rebuilds from /repo's working tree).
set -u
cd "$(dirname "$0")"
export GOFLAGS=-mod=mod GOPROXY=off GOSUMDB=off GOTOOLCHAIN=local
mkdir -p evidence replay
( cd harness && go build -tags verif -race -o /dev/null ./cmd/vcheck ) || exit 1
( cd harness && go build -tags verif -o /dev/null ./cmd/vcheck ) || exit 1
echo setup ok
